/-
  Proofs/C12Convex.lean — the geometric fact behind the polygon completeness clause of C12:
  two strictly convex (counter-clockwise) outlines whose interiors meet, neither nested strictly
  inside the other, have two edges that share a point.  Carrier ℝ.

  Together with `poly_complete_edges` (Proofs/C12.lean) this replaces the opaque hypothesis
  `H_cross` by an explicit angle hypothesis on the edges that meet (`convex_overlap_detected`).
-/
import Proofs.C12
import Mathlib.Tactic.Ring
import Mathlib.Tactic.Linarith
import Mathlib.Tactic.Positivity
import Mathlib.Tactic.FieldSimp
import Mathlib.Tactic.NormNum
import Mathlib.Tactic.LinearCombination
import Mathlib.Tactic.Push

namespace PV.Proofs.C12Convex
open PV PV.Proofs.C12

/-! ### definitions -/

/-- signed side of the point (px,py) relative to the directed edge e: positive = strictly left -/
def side (e : Line2 ℝ) (px py : ℝ) : ℝ := e.dx * (py - e.sy) - e.dy * (px - e.sx)

/-- cross product of the directions of two edges -/
def turn (e f : Line2 ℝ) : ℝ := e.dx * f.dy - e.dy * f.dx

/-- a closed, counter-clockwise, strictly convex outline: consecutive edges (cyclically) are joined
end-to-start and turn strictly left, and every vertex lies in every edge's closed left half-plane -/
structure ConvexChain (xs : List (Line2 ℝ)) : Prop where
  three : 3 ≤ xs.length
  joined : ∀ i (h : i < xs.length),
    (xs[i]).ex = (xs[(i + 1) % xs.length]'(Nat.mod_lt _ (by omega))).sx ∧
    (xs[i]).ey = (xs[(i + 1) % xs.length]'(Nat.mod_lt _ (by omega))).sy
  left : ∀ i (h : i < xs.length), 0 < turn (xs[i]) (xs[(i + 1) % xs.length]'(Nat.mod_lt _ (by omega)))
  hull : ∀ e ∈ xs, ∀ f ∈ xs, 0 ≤ side e f.sx f.sy

/-- strictly inside: strictly left of every edge -/
def Interior (xs : List (Line2 ℝ)) (px py : ℝ) : Prop := ∀ e ∈ xs, 0 < side e px py
/-- in the closed polygon -/
def Inside (xs : List (Line2 ℝ)) (px py : ℝ) : Prop := ∀ e ∈ xs, 0 ≤ side e px py

/-! ### elementary facts -/

/-- `side` is affine along a segment -/
theorem side_affine (b : Line2 ℝ) (x0 y0 x1 y1 t : ℝ) :
    side b (x0 + t * (x1 - x0)) (y0 + t * (y1 - y0)) =
      (1 - t) * side b x0 y0 + t * side b x1 y1 := by
  unfold side; ring

/-- the change of `side b` from the start to the end of `a` is the cross product of directions -/
theorem turn_eq_side_sub (a b : Line2 ℝ) :
    turn a b = side b a.sx a.sy - side b a.ex a.ey := by
  unfold turn side Line2.dx Line2.dy; ring

theorem Interior.inside {xs : List (Line2 ℝ)} {px py : ℝ} (h : Interior xs px py) :
    Inside xs px py := fun e he => le_of_lt (h e he)

/-- cyclically consecutive edges, with the index equation as a hypothesis (avoids dependent
rewriting under `getElem`) -/
theorem ConvexChain.adj {xs : List (Line2 ℝ)} (hx : ConvexChain xs) (i j : ℕ)
    (hi : i < xs.length) (hj : j < xs.length) (hij : j = (i + 1) % xs.length) :
    (xs[i]).ex = (xs[j]).sx ∧ (xs[i]).ey = (xs[j]).sy ∧ 0 < turn (xs[i]) (xs[j]) := by
  subst hij
  exact ⟨(hx.joined i hi).1, (hx.joined i hi).2, hx.left i hi⟩

/-- every edge has a successor: joined at its end, turning strictly left -/
theorem ConvexChain.next {xs : List (Line2 ℝ)} (hx : ConvexChain xs) {e : Line2 ℝ} (he : e ∈ xs) :
    ∃ f ∈ xs, e.ex = f.sx ∧ e.ey = f.sy ∧ 0 < turn e f := by
  obtain ⟨i, hi, rfl⟩ := List.getElem_of_mem he
  have hn : 0 < xs.length := by omega
  exact ⟨xs[(i + 1) % xs.length]'(Nat.mod_lt _ hn), List.getElem_mem _,
    hx.adj i _ hi _ rfl⟩

/-- every edge has a predecessor: joined at its start, turning strictly left -/
theorem ConvexChain.prev {xs : List (Line2 ℝ)} (hx : ConvexChain xs) {e : Line2 ℝ} (he : e ∈ xs) :
    ∃ f ∈ xs, f.ex = e.sx ∧ f.ey = e.sy ∧ 0 < turn f e := by
  obtain ⟨i, hi, rfl⟩ := List.getElem_of_mem he
  have hn : 0 < xs.length := by omega
  have hj : (i + xs.length - 1) % xs.length < xs.length := Nat.mod_lt _ hn
  refine ⟨xs[(i + xs.length - 1) % xs.length], List.getElem_mem _, hx.adj _ i hj hi ?_⟩
  have e1 : i + xs.length - 1 + 1 = i + xs.length := by omega
  rw [Nat.mod_add_mod, e1, Nat.add_mod_right, Nat.mod_eq_of_lt hi]

/-! ### 1. a boundary point of the closed polygon lies on the closed edge -/

theorem boundary_on_edge {xs : List (Line2 ℝ)} (hx : ConvexChain xs) {e : Line2 ℝ} (he : e ∈ xs)
    (px py : ℝ) (hin : Inside xs px py) (h0 : side e px py = 0) :
    ∃ t : ℝ, 0 ≤ t ∧ t ≤ 1 ∧ Line2.at e t = (px, py) := by
  obtain ⟨f, hf, hfx, hfy, hft⟩ := hx.next he
  obtain ⟨g, hg, hgx, hgy, hgt⟩ := hx.prev he
  have hsf := hin f hf
  have hsg := hin g hg
  -- the edge has a non-zero direction
  have hD : 0 < e.dx ^ 2 + e.dy ^ 2 := by
    by_contra hcon
    have hle : e.dx ^ 2 + e.dy ^ 2 ≤ 0 := not_lt.mp hcon
    have h1 : e.dx ^ 2 = 0 := by nlinarith [sq_nonneg e.dx, sq_nonneg e.dy]
    have h2 : e.dy ^ 2 = 0 := by nlinarith [sq_nonneg e.dx, sq_nonneg e.dy]
    have h1' : e.dx = 0 := pow_eq_zero_iff (two_ne_zero) |>.mp h1
    have h2' : e.dy = 0 := pow_eq_zero_iff (two_ne_zero) |>.mp h2
    rw [turn, h1', h2'] at hft
    simp at hft
  set D := e.dx ^ 2 + e.dy ^ 2 with hDdef
  set u := ((px - e.sx) * e.dx + (py - e.sy) * e.dy) / D with hu
  have huD : u * D = (px - e.sx) * e.dx + (py - e.sy) * e.dy := div_mul_cancel₀ _ hD.ne'
  have h0' : e.dx * (py - e.sy) - e.dy * (px - e.sx) = 0 := h0
  have hpx : px - e.sx = u * e.dx := by
    apply mul_right_cancel₀ hD.ne'
    have : u * e.dx * D = (u * D) * e.dx := by ring
    rw [this, huD, hDdef]
    linear_combination (-e.dy) * h0'
  have hpy : py - e.sy = u * e.dy := by
    apply mul_right_cancel₀ hD.ne'
    have : u * e.dy * D = (u * D) * e.dy := by ring
    rw [this, huD, hDdef]
    linear_combination (e.dx) * h0'
  have hg_side : side g px py = u * turn g e := by
    simp only [Line2.dx, Line2.dy] at hpx hpy
    simp only [side, turn, Line2.dx, Line2.dy]
    linear_combination (g.ex - g.sx) * hpy - (g.ey - g.sy) * hpx + (g.ey - g.sy) * hgx
      - (g.ex - g.sx) * hgy
  have hf_side : side f px py = (1 - u) * turn e f := by
    simp only [Line2.dx, Line2.dy] at hpx hpy
    simp only [side, turn, Line2.dx, Line2.dy]
    linear_combination (f.ex - f.sx) * hpy - (f.ey - f.sy) * hpx + (f.ex - f.sx) * hfy
      - (f.ey - f.sy) * hfx
  have hu0 : 0 ≤ u := by
    rw [hg_side] at hsg
    exact nonneg_of_mul_nonneg_left hsg hgt
  have hu1 : u ≤ 1 := by
    rw [hf_side] at hsf
    have := nonneg_of_mul_nonneg_left hsf hft
    linarith
  refine ⟨u, hu0, hu1, ?_⟩
  simp only [Line2.dx, Line2.dy] at hpx hpy
  simp only [Line2.at, Prod.mk.injEq]
  constructor <;> linarith

/-! ### 2. a segment leaving the interior crosses an edge -/

/-- a non-empty list has an element minimising a real-valued function -/
theorem exists_min_list {α : Type} (f : α → ℝ) :
    ∀ l : List α, l ≠ [] → ∃ m ∈ l, ∀ x ∈ l, f m ≤ f x
  | [], h => absurd rfl h
  | [a], _ => ⟨a, by simp, by simp⟩
  | a :: b :: l, _ => by
    obtain ⟨m, hm, hmin⟩ := exists_min_list f (b :: l) (by simp)
    rcases le_total (f a) (f m) with h | h
    · refine ⟨a, by simp, ?_⟩
      intro x hx
      rcases List.mem_cons.mp hx with rfl | hx
      · exact le_refl _
      · exact le_trans h (hmin x hx)
    · refine ⟨m, List.mem_cons_of_mem _ hm, ?_⟩
      intro x hx
      rcases List.mem_cons.mp hx with rfl | hx
      · exact h
      · exact hmin x hx

/-- a segment that starts strictly inside a convex outline and ends not strictly inside shares a
point with some edge `b`, and crosses it from left to right (`0 < turn a b`: never parallel) -/
theorem segment_exits_strong {ys : List (Line2 ℝ)} (hy : ConvexChain ys) (a : Line2 ℝ)
    (hs : Interior ys a.sx a.sy) (he : ¬ Interior ys a.ex a.ey) :
    ∃ b ∈ ys, SharePoint a b ∧ 0 < turn a b := by
  classical
  unfold Interior at he
  push Not at he
  obtain ⟨b0, hb0, hb0s⟩ := he
  set S := ys.filter (fun b => decide (side b a.ex a.ey ≤ 0)) with hS
  have memS : ∀ b, b ∈ S ↔ b ∈ ys ∧ side b a.ex a.ey ≤ 0 := by
    intro b; rw [hS, List.mem_filter, decide_eq_true_eq]
  have hne : S ≠ [] := List.ne_nil_of_mem ((memS b0).mpr ⟨hb0, hb0s⟩)
  obtain ⟨m, hm, hmin⟩ := exists_min_list
    (fun b => side b a.sx a.sy / (side b a.sx a.sy - side b a.ex a.ey)) S hne
  obtain ⟨hmy, hmq⟩ := (memS m).mp hm
  have hmp : 0 < side m a.sx a.sy := hs m hmy
  have hden : 0 < side m a.sx a.sy - side m a.ex a.ey := by linarith
  set t := side m a.sx a.sy / (side m a.sx a.sy - side m a.ex a.ey) with ht
  have ht0 : 0 ≤ t := div_nonneg hmp.le hden.le
  have ht1 : t ≤ 1 := by rw [ht, div_le_one hden]; linarith
  have htm : t * (side m a.sx a.sy - side m a.ex a.ey) = side m a.sx a.sy :=
    div_mul_cancel₀ _ hden.ne'
  -- the crossing point is in the closed polygon
  have hin : Inside ys (a.sx + t * (a.ex - a.sx)) (a.sy + t * (a.ey - a.sy)) := by
    intro c hc
    rw [side_affine]
    have hcp : 0 < side c a.sx a.sy := hs c hc
    by_cases hcq : side c a.ex a.ey ≤ 0
    · have hcS : c ∈ S := (memS c).mpr ⟨hc, hcq⟩
      have hcden : 0 < side c a.sx a.sy - side c a.ex a.ey := by linarith
      have hle : t ≤ side c a.sx a.sy / (side c a.sx a.sy - side c a.ex a.ey) := hmin c hcS
      rw [le_div_iff₀ hcden] at hle
      linarith
    · have hcq' : 0 < side c a.ex a.ey := not_le.mp hcq
      have h1 : 0 ≤ (1 - t) * side c a.sx a.sy := mul_nonneg (by linarith) hcp.le
      have h2 : 0 ≤ t * side c a.ex a.ey := mul_nonneg ht0 hcq'.le
      linarith
  have hzero : side m (a.sx + t * (a.ex - a.sx)) (a.sy + t * (a.ey - a.sy)) = 0 := by
    rw [side_affine]; linarith
  obtain ⟨u, hu0, hu1, hu⟩ := boundary_on_edge hy hmy _ _ hin hzero
  refine ⟨m, hmy, ⟨t, u, ht0, ht1, hu0, hu1, hu.symm⟩, ?_⟩
  rw [turn_eq_side_sub]; exact hden

theorem segment_exits {ys : List (Line2 ℝ)} (hy : ConvexChain ys) (a : Line2 ℝ)
    (hs : Interior ys a.sx a.sy) (he : ¬ Interior ys a.ex a.ey) :
    ∃ b ∈ ys, SharePoint a b := by
  obtain ⟨b, hb, h, _⟩ := segment_exits_strong hy a hs he
  exact ⟨b, hb, h⟩

/-- the variant asked for: the exiting edge is not exactly parallel to `a` (in fact the left disjunct
always holds, see `segment_exits_strong`) -/
theorem segment_exits' {ys : List (Line2 ℝ)} (hy : ConvexChain ys) (a : Line2 ℝ)
    (hs : Interior ys a.sx a.sy) (he : ¬ Interior ys a.ex a.ey) :
    ∃ b ∈ ys, SharePoint a b ∧ (turn a b ≠ 0 ∨ side b a.ex a.ey = 0) := by
  obtain ⟨b, hb, h, ht⟩ := segment_exits_strong hy a hs he
  exact ⟨b, hb, h, Or.inl ht.ne'⟩

/-! ### 3. a cyclic sequence that is neither all-`P` nor all-`¬P` has a `P → ¬P` step -/

theorem cyclic_step_nat (n : ℕ) (hn : 0 < n) (Q : ℕ → Prop) (i0 j0 : ℕ) (hi : i0 < n)
    (hj : j0 < n) (hQ : Q i0) (hnQ : ¬ Q j0) : ∃ i, i < n ∧ Q i ∧ ¬ Q ((i + 1) % n) := by
  by_contra hcon
  push Not at hcon
  have key : ∀ k, Q ((i0 + k) % n) := by
    intro k
    induction k with
    | zero => rw [Nat.add_zero, Nat.mod_eq_of_lt hi]; exact hQ
    | succ k ih =>
      have h := hcon ((i0 + k) % n) (Nat.mod_lt _ hn) ih
      rw [Nat.mod_add_mod] at h
      exact h
  have h := key (j0 + n - i0)
  have e : i0 + (j0 + n - i0) = j0 + n := by omega
  rw [e, Nat.add_mod_right, Nat.mod_eq_of_lt hj] at h
  exact hnQ h

theorem cyclic_step {α : Type} (vs : List α) (P : α → Prop)
    (hP : ∃ x ∈ vs, P x) (hnP : ∃ y ∈ vs, ¬ P y) :
    ∃ i, ∃ h : i < vs.length,
      P (vs[i]) ∧ ¬ P (vs[(i + 1) % vs.length]'(Nat.mod_lt _ (by omega))) := by
  obtain ⟨x, hx, hPx⟩ := hP
  obtain ⟨y, hy, hPy⟩ := hnP
  obtain ⟨i0, hi0, rfl⟩ := List.getElem_of_mem hx
  obtain ⟨j0, hj0, rfl⟩ := List.getElem_of_mem hy
  have hn : 0 < vs.length := by omega
  obtain ⟨i, hi, ⟨h, hPi⟩, hnQ⟩ := cyclic_step_nat vs.length hn
    (fun i => ∃ h : i < vs.length, P (vs[i])) i0 j0 hi0 hj0 ⟨hi0, hPx⟩
    (fun ⟨_, hp⟩ => hPy hp)
  exact ⟨i, h, hPi, fun hp => hnQ ⟨Nat.mod_lt _ hn, hp⟩⟩

/-! ### 4. the main theorem -/

/-- a point shared with the sub-segment of `b` from `b(t)` back to the start of `b` is shared with `b` -/
theorem sharePoint_of_subsegment (b a : Line2 ℝ) (t zx zy : ℝ) (ht0 : 0 ≤ t) (ht1 : t ≤ 1)
    (hz : Line2.at b t = (zx, zy)) (h : SharePoint ⟨zx, zy, b.sx, b.sy⟩ a) : SharePoint b a := by
  obtain ⟨s, u, hs0, hs1, hu0, hu1, he⟩ := h
  have hs1' : 0 ≤ 1 - s := by linarith
  refine ⟨t * (1 - s), u, mul_nonneg ht0 hs1', ?_, hu0, hu1, ?_⟩
  · nlinarith [mul_nonneg ht0 hs0]
  · rw [← he]
    simp only [Line2.at, Prod.mk.injEq] at hz ⊢
    obtain ⟨h1, h2⟩ := hz
    constructor
    · rw [← h1]; ring
    · rw [← h2]; ring

/-- **two convex outlines whose interiors meet, neither nested strictly inside the other, have two
edges that share a point** -/
theorem convex_overlap_edges (xs ys : List (Line2 ℝ)) (hx : ConvexChain xs) (hy : ConvexChain ys)
    (px py : ℝ) (hpx : Interior xs px py) (hpy : Interior ys px py)
    (hnx : ∃ e ∈ xs, ¬ Interior ys e.sx e.sy)      -- xs is not nested strictly inside ys
    (hny : ∃ f ∈ ys, ¬ Interior xs f.sx f.sy) :    -- ys is not nested strictly inside xs
    ∃ a ∈ xs, ∃ b ∈ ys, SharePoint a b := by
  by_cases hA : ∃ f ∈ ys, Interior xs f.sx f.sy
  · -- Case A: some vertex of ys is strictly inside xs, some is not: an edge of ys leaves xs
    obtain ⟨i, hi, hPi, hnPi⟩ := cyclic_step ys (fun f => Interior xs f.sx f.sy) hA hny
    have hj := hy.joined i hi
    have hend : ¬ Interior xs (ys[i]).ex (ys[i]).ey := by
      rw [hj.1, hj.2]; exact hnPi
    obtain ⟨a, ha, hab⟩ := segment_exits hx (ys[i]) hPi hend
    exact ⟨a, ha, ys[i], List.getElem_mem _, sharePoint_symm hab⟩
  · -- Case B: no vertex of ys is strictly inside xs
    push Not at hA
    obtain ⟨e, he, hne⟩ := hnx
    obtain ⟨b, hb, s, t, hs0, hs1, ht0, ht1, hst⟩ :=
      segment_exits hy ⟨px, py, e.sx, e.sy⟩ hpy hne
    rcases eq_or_lt_of_le hs1 with h1 | h1
    · -- the crossing point is the vertex e.s itself
      refine ⟨e, he, b, hb, 0, t, le_refl _, zero_le_one, ht0, ht1, ?_⟩
      rw [← hst, h1]
      simp [Line2.at]
    · -- the crossing point z is strictly inside xs; walk from z along b to b's start
      have hz : Interior xs (px + s * (e.sx - px)) (py + s * (e.sy - py)) := by
        intro a ha
        rw [side_affine]
        have h1' := hpx a ha
        have h2 := hx.hull a ha e he
        have h3 : 0 < (1 - s) * side a px py := mul_pos (by linarith) h1'
        have h4 : 0 ≤ s * side a e.sx e.sy := mul_nonneg hs0 h2
        linarith
      obtain ⟨a, ha, hda⟩ := segment_exits hx
        ⟨px + s * (e.sx - px), py + s * (e.sy - py), b.sx, b.sy⟩ hz (hA b hb)
      exact ⟨a, ha, b, hb,
        sharePoint_symm (sharePoint_of_subsegment b a t _ _ ht0 ht1 hst.symm hda)⟩

/-! ### 6. the model's polygon test detects overlapping convex outlines -/

/-- **completeness of the polygon test for convex outlines**: interiors meet, neither nested strictly
inside the other, and edges that meet do so at an angle above the relative tolerance ⟹ detected -/
theorem convex_overlap_detected (xs ys : List (Line2 ℝ)) (hx : ConvexChain xs) (hy : ConvexChain ys)
    (px py : ℝ) (hpx : Interior xs px py) (hpy : Interior ys px py)
    (hnx : ∃ e ∈ xs, ¬ Interior ys e.sx e.sy) (hny : ∃ f ∈ ys, ¬ Interior xs f.sx f.sy)
    (hang : ∀ a ∈ xs, ∀ b ∈ ys, SharePoint a b → ¬ NearParallel a b) :
    (Shape.line xs).intersects (Shape.line ys) = true := by
  obtain ⟨a, ha, b, hb, h⟩ := convex_overlap_edges xs ys hx hy px py hpx hpy hnx hny
  exact poly_complete_edges xs ys ⟨a, ha, b, hb, hang a ha b hb h, h⟩

/-! ### 5. non-vacuity -/

/-- the axis-parallel unit square with lower left corner `(ox, oy)`, counter-clockwise -/
def square (ox oy : ℝ) : List (Line2 ℝ) :=
  [⟨ox, oy, ox + 1, oy⟩, ⟨ox + 1, oy, ox + 1, oy + 1⟩, ⟨ox + 1, oy + 1, ox, oy + 1⟩,
   ⟨ox, oy + 1, ox, oy⟩]

theorem square_chain (ox oy : ℝ) : ConvexChain (square ox oy) where
  three := by simp [square]
  joined := by
    intro i h
    have h4 : i < 4 := h
    obtain rfl | rfl | rfl | rfl : i = 0 ∨ i = 1 ∨ i = 2 ∨ i = 3 := by omega
    all_goals simp [square]
  left := by
    intro i h
    have h4 : i < 4 := h
    obtain rfl | rfl | rfl | rfl : i = 0 ∨ i = 1 ∨ i = 2 ∨ i = 3 := by omega
    all_goals simp [square, turn, Line2.dx, Line2.dy]
  hull := by
    intro e he f hf
    simp only [square, List.mem_cons, List.not_mem_nil, or_false] at he hf
    rcases he with rfl | rfl | rfl | rfl <;> rcases hf with rfl | rfl | rfl | rfl <;>
      norm_num [side, Line2.dx, Line2.dy]

/-- the unit square, literally -/
theorem square_zero :
    square 0 0 = [⟨0, 0, 1, 0⟩, ⟨1, 0, 1, 1⟩, ⟨1, 1, 0, 1⟩, ⟨0, 1, 0, 0⟩] := by
  simp [square]

theorem unit_square_chain :
    ConvexChain [⟨0, 0, 1, 0⟩, ⟨1, 0, 1, 1⟩, ⟨1, 1, 0, 1⟩, ⟨0, 1, 0, 0⟩] := by
  rw [← square_zero]; exact square_chain 0 0

/-- the unit square and its copy shifted by (1/2, 1/2): (3/4, 3/4) is interior to both, neither is
nested in the other, so two of their edges share a point -/
theorem squares_share :
    ∃ a ∈ square 0 0, ∃ b ∈ square (1 / 2) (1 / 2), SharePoint a b := by
  apply convex_overlap_edges _ _ (square_chain 0 0) (square_chain (1 / 2) (1 / 2)) (3 / 4) (3 / 4)
  · intro e he
    simp only [square, List.mem_cons, List.not_mem_nil, or_false] at he
    rcases he with rfl | rfl | rfl | rfl <;> norm_num [side, Line2.dx, Line2.dy]
  · intro e he
    simp only [square, List.mem_cons, List.not_mem_nil, or_false] at he
    rcases he with rfl | rfl | rfl | rfl <;> norm_num [side, Line2.dx, Line2.dy]
  · refine ⟨⟨0, 0, 0 + 1, 0⟩, by simp [square], ?_⟩
    intro h
    have := h ⟨1 / 2, 1 / 2, 1 / 2 + 1, 1 / 2⟩ (by simp [square])
    norm_num [side, Line2.dx, Line2.dy] at this
  · refine ⟨⟨1 / 2 + 1, 1 / 2, 1 / 2 + 1, 1 / 2 + 1⟩, by simp [square], ?_⟩
    intro h
    have := h ⟨0 + 1, 0, 0 + 1, 0 + 1⟩ (by simp [square])
    norm_num [side, Line2.dx, Line2.dy] at this

/-- the shifted square, literally -/
theorem square_half :
    square (1 / 2) (1 / 2) =
      [⟨1 / 2, 1 / 2, 3 / 2, 1 / 2⟩, ⟨3 / 2, 1 / 2, 3 / 2, 3 / 2⟩, ⟨3 / 2, 3 / 2, 1 / 2, 3 / 2⟩,
       ⟨1 / 2, 3 / 2, 1 / 2, 1 / 2⟩] := by
  simp only [square]; norm_num

theorem half_square_chain :
    ConvexChain [⟨1 / 2, 1 / 2, 3 / 2, 1 / 2⟩, ⟨3 / 2, 1 / 2, 3 / 2, 3 / 2⟩,
      ⟨3 / 2, 3 / 2, 1 / 2, 3 / 2⟩, ⟨1 / 2, 3 / 2, 1 / 2, 1 / 2⟩] := by
  rw [← square_half]; exact square_chain _ _

/-- the same statement with the edge lists written out -/
example :
    ∃ a ∈ ([⟨0, 0, 1, 0⟩, ⟨1, 0, 1, 1⟩, ⟨1, 1, 0, 1⟩, ⟨0, 1, 0, 0⟩] : List (Line2 ℝ)),
      ∃ b ∈ ([⟨1 / 2, 1 / 2, 3 / 2, 1 / 2⟩, ⟨3 / 2, 1 / 2, 3 / 2, 3 / 2⟩,
        ⟨3 / 2, 3 / 2, 1 / 2, 3 / 2⟩, ⟨1 / 2, 3 / 2, 1 / 2, 1 / 2⟩] : List (Line2 ℝ)),
        SharePoint a b := by
  rw [← square_zero, ← square_half]; exact squares_share

end PV.Proofs.C12Convex
