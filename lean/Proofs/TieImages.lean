/-
  Proofs/TieImages.lean — translator tie for the lattice part of src/cell.rs
  (`to_cartesian_point`, `to_cartesian_isometry`, `to_cartesian_translate`, `periodic_images`) and for
  src/site.rs (`transform`, `symmetries`, `positions`, `multiplicity`): the definitions regenerated
  from the source (iterator chains, `iproduct!` over `-shells..=shells`, the `filter`/`map` closures)
  are the model functions of C14 / C15 / C04.
-/
import Lemmas.RealCarrier
import Lemmas.TieTactics
import Proofs.TieCell
import Generated.FnsLattice

namespace PV.Proofs.Tie
open PV

set_option linter.unusedSimpArgs false
set_option linter.unusedTactic false

theorem declared_translated_images : Gen.fnsLatticeUntranslated = [] := by decide

theorem to_cartesian_point_tie (c : Cell ℝ) (p : Pt ℝ) :
    Gen.mkPt (Gen.cell_to_cartesian_point c p) = c.toCartesianPoint p := by
  unfold Gen.cell_to_cartesian_point Gen.mkPt Cell.toCartesianPoint
  rw [cell_to_cartesian_tie]

theorem to_cartesian_isometry_tie (c : Cell ℝ) (t : Mat3 ℝ) :
    Gen.cell_to_cartesian_isometry c t = c.toCartesianIsometry t := by
  unfold Gen.cell_to_cartesian_isometry Cell.toCartesianIsometry
  rw [to_cartesian_point_tie]

theorem to_cartesian_translate_tie (c : Cell ℝ) (t : Mat3 ℝ) (x y : Int) :
    Gen.cell_to_cartesian_translate c t x y = c.toCartesianTranslate t x y := by
  unfold Gen.cell_to_cartesian_translate Cell.toCartesianTranslate
  simp only [to_cartesian_point_tie]
  rfl

theorem periodic_images_tie (c : Cell ℝ) (t : Mat3 ℝ) (k : Int) (zero : Bool) :
    Gen.cell_periodic_images c t k zero = c.periodicImages t k zero := by
  unfold Gen.cell_periodic_images Cell.periodicImages imageIndices
  simp only [to_cartesian_translate_tie]
  congr 1
  apply List.filter_congr
  rintro ⟨x, y⟩ _
  rw [Bool.eq_iff_iff]
  cases zero <;> simp [and_assoc]

end PV.Proofs.Tie
