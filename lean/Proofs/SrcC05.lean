/-
  Proofs/SrcC05.lean — a clause of C05 restated ABOUT THE TRANSLATED SOURCE: a `Gen.*` function (regenerated from
  /repo's function bodies on every run by tools/rs2lean.py) stands where the property file has the hand-written
  model function; the statement follows from the property theorem by a tie theorem, so that
  source text -> generated definition -> (tie) -> model -> property  is machine-checked end to end.
-/
import Proofs.C05
import Proofs.TieAccept

namespace PV.Proofs.Source
open PV PV.Proofs.Tie

/-- **C05 about the source**: at temperature zero the translated `accept_score` never accepts a score
below the current one -/
theorem C05_source_zero_temp_accept (new : Option ℝ) (old thr s : ℝ) (h0 : 0 ≤ thr)
    (h : Gen.accept_score new old 0 thr = some s) : old ≤ s := by
  rw [accept_score_tie] at h; exact C05.zero_temp_accept new old thr s h0 h

end PV.Proofs.Source
