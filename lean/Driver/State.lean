/-
  Driver/State.lean — `pair` and `state` request families, crystal states for `opt`.
-/
import Generated.FnsPacked
import Generated.FnsPotential
import Model.State
import Model.Parser
import Generated.Tables
import Driver.Opt

namespace PV.Driver
open PV

def pOptF' : P (Option Float) := pOptF

/-- shape tokens, mirroring `state.rs: parse_shape`; `none` inside = constructor error -/
def pShape : P (Option (Shape Float)) := do
  match (← tok) with
  | "poly" => do let n ← pNat; pure (Shape.polygon n)
  | "radial" => do let v ← pList pF; pure (Shape.fromRadial v)
  | "lines" => do
    let v ← pList (do let a ← pF; let b ← pF; let c ← pF; let d ← pF; pure (⟨a, b, c, d⟩ : Line2 Float))
    pure (some (.line v))
  | "circle" => pure (some Shape.molCircle)
  | "trimer" => do let r ← pF; let a ← pF; let d ← pF; pure (some (Shape.molTrimer r a d))
  | "atoms" => do
    let v ← pList (do let a ← pF; let b ← pF; let c ← pF; pure (⟨a, b, c⟩ : Atom2 Float))
    pure (some (.mol v))
  | "ljcircle" => pure (some Shape.ljCircle)
  | "ljtrimer" => do let r ← pF; let a ← pF; let d ← pF; pure (some (Shape.ljTrimer r a d))
  | "ljs" => do
    let v ← pList (do
      let x ← pF; let y ← pF; let s ← pF; let e ← pF; let c ← pOptF
      pure (⟨x, y, s, e, c⟩ : LJ2 Float))
    pure (some (.lj v))
  | _ => failure

def itemsHex : Shape Float → String
  | .line items =>
    (s!"line {items.length} " ++ " ".intercalate (items.map fun i =>
      s!"{fhex i.sx} {fhex i.sy} {fhex i.ex} {fhex i.ey}")).trimAsciiEnd.toString
  | .mol items =>
    (s!"mol {items.length} " ++ " ".intercalate (items.map fun i =>
      s!"{fhex i.x} {fhex i.y} {fhex i.r}")).trimAsciiEnd.toString
  | .lj items =>
    (s!"lj {items.length} " ++ " ".intercalate (items.map fun i =>
      let c := match i.cutoff with | some c => fhex c | none => "-"
      s!"{fhex i.x} {fhex i.y} {fhex i.sigma} {fhex i.epsilon} {c}")).trimAsciiEnd.toString

def b01 (b : Bool) : String := if b then "1" else "0"

def execPair (op : String) (ts : List String) : Option String :=
  let p : P String :=
    match op with
    | "lineint" => do
      let a ← (do let a ← pF; let b ← pF; let c ← pF; let d ← pF; pure (⟨a, b, c, d⟩ : Line2 Float))
      let b ← (do let a ← pF; let b ← pF; let c ← pF; let d ← pF; pure (⟨a, b, c, d⟩ : Line2 Float))
      pure ("ok " ++ b01 (a.intersects b))
    | "atomint" => do
      let a ← (do let a ← pF; let b ← pF; let c ← pF; pure (⟨a, b, c⟩ : Atom2 Float))
      let b ← (do let a ← pF; let b ← pF; let c ← pF; pure (⟨a, b, c⟩ : Atom2 Float))
      pure ("ok " ++ b01 (a.intersects b))
    | "lj2" => do
      let mk : P (LJ2 Float) := do
        let x ← pF; let y ← pF; let s ← pF; let e ← pF; let c ← pOptF
        pure ⟨x, y, s, e, c⟩
      let a ← mk; let b ← mk
      pure ("ok " ++ fhex (a.energy b))
    | _ => do
      match (← pShape) with
      | none => pure "err shape"
      | some shape =>
        match op with
        | "items" => pure ("ok " ++ itemsHex shape)
        | "area" => pure (match shape with
          | .lj _ => "err noarea"
          | s => "ok " ++ fhex s.area)
        | "radius" => pure ("ok " ++ fhex shape.enclosingRadius)
        | "intersects" => do
          let a ← pMat; let b ← pMat
          pure (match shape with
            | .lj _ => "err nointersect"
            | s => "ok " ++ b01 ((s.transform a).intersects (s.transform b)))
        | "energy" => do
          let a ← pMat; let b ← pMat
          pure (match shape with
            | .lj _ => "ok " ++ fhex ((shape.transform a).energy (shape.transform b))
            | _ => "err noenergy")
        | "transform" => do let a ← pMat; pure ("ok " ++ itemsHex (shape.transform a))
        | _ => failure
  (p.run ts).map (·.1)

/-- `<kind> <shape> <group> init | <L R A> <nsites> (x y angle)..`; `.error msg` mirrors the harness -/
def pState : P (Except String (Crystal Float)) := do
  let kindS ← tok
  let shape? ← pShape
  let gtok ← tok
  -- modifiers of the group token, each introduced by one mark: `+` (the single site may be repeated),
  -- `@Family` (family of label and cell), `!name` (the sites' operation list replaced by a custom one),
  -- `%k` (a descriptive field of the site the model does not have: ignored)
  let isMark (c : Char) : Bool := c == '@' || c == '+' || c == '%' || c == '!'
  let cs := gtok.toList
  let gname := String.ofList (cs.takeWhile (fun c => !isMark c))
  -- split the rest into (mark, body) segments
  let rec segs (fuel : Nat) (l : List Char) (acc : List (Char × String)) : List (Char × String) :=
    match fuel, l with
    | 0, _ => acc.reverse
    | _, [] => acc.reverse
    | fuel + 1, m :: r =>
      let body := r.takeWhile (fun c => !isMark c)
      segs fuel (r.dropWhile (fun c => !isMark c)) ((m, String.ofList body) :: acc)
  let mods := segs cs.length (cs.dropWhile (fun c => !isMark c)) []
  let multi := mods.any (·.1 == '+')
  let famS? : Option String := (mods.find? (·.1 == '@')).map (·.2)
  let custom? : Option String := (mods.find? (·.1 == '!')).map (·.2)
  let fam? : Option (Option Family) := match famS? with
    | none => some none
    | some "Monoclinic" => some (some .Monoclinic) | some "Orthorhombic" => some (some .Orthorhombic)
    | some "Hexagonal" => some (some .Hexagonal) | some "Tetragonal" => some (some .Tetragonal)
    | some _ => none
  -- operation lists of groups the crate has no table for (the harness has the same three)
  let mk (a b c d e f : Float) : Mat3 Float := ⟨a, b, c, d, e, f, 0.0, 0.0, 0.0⟩
  let customOps : Option (List (Mat3 Float)) := custom?.map fun n =>
    if n == "p4" then [mk 1 0 0 0 1 0, mk 0 (-1) 0 1 0 0, mk (-1) 0 0 0 (-1) 0, mk 0 1 0 (-1) 0 0]
    else if n == "p3" then [mk 1 0 0 0 1 0, mk 0 (-1) 0 1 (-1) 0, mk (-1) 1 0 (-1) 0 0]
    else if n == "p4g" then [mk 1 0 0 0 1 0, mk 0 (-1) 0.5 1 0 0.5, mk (-1) 0 0 0 (-1) 0, mk 0 1 0.5 (-1) 0 0.5]
    else [mk 1 0 0 0 1 0]
  let entry? := Generated.tables.find? (fun e => e.variant == gname.toList)
  let rest : P (Option (Float × Float × Float × List (Float × Float × Float))) := do
    match (← get) with
    | "init" :: ts => set ts; pure none
    | _ => do
      let l ← pF; let r ← pF; let a ← pF
      let sites ← pList (do let x ← pF; let y ← pF; let t ← pF; pure (x, y, t))
      pure (some (l, r, a, sites))
  match shape? with
  | none => let _ ← rest; pure (.error "shape")
  | some shape =>
    match entry?, fam? with
    | _, none => let _ ← rest; pure (.error "family")
    | none, _ => pure (.error "group")
    | some e, some famOv =>
      let kind? : Option Kind := match kindS, shape with
        | "hard", .line _ => some .hard
        | "hard", .mol _ => some .hard
        | "lj", .lj _ => some .lj
        | _, _ => none
      match kind? with
      | none => pure (.error "kind/shape")
      | some kind =>
        let ops := e.ops.filterMap fun s => match fromOperations (α := Float) s with
          | .ok m => some m
          | .error _ => none
        let st0 := Crystal.fromGroup kind shape e.name e.family ops
        match (← rest) with
        | none => pure (.ok st0)
        | some (l, r, a, sites) =>
          let st0 : Crystal Float := match famOv with
            | none => st0
            | some f => { st0 with family := f, cell := { st0.cell with family := f } }
          let st0 : Crystal Float := match customOps with
            | none => st0
            | some ops => { st0 with sites := st0.sites.map fun s => { s with ops := ops } }
          let st0 : Crystal Float :=
            if multi && st0.sites.length == 1 && sites.length ≥ 2 then
              { st0 with sites := List.replicate sites.length (st0.sites.headD (Site.fromWyckoff [])) }
            else st0
          if sites.length != st0.sites.length then pure (.error "inject")
          else if !(l.isFinite && r.isFinite && a.isFinite &&
              sites.all fun (x, y, t) => x.isFinite && y.isFinite && t.isFinite) then pure (.error "inject")
          else
            pure (.ok { st0 with
              cell := { st0.cell with length := l, ratio := r, angle := a }
              sites := (st0.sites.zip sites).map fun (s, (x, y, t)) => { s with x := x, y := y, angle := t } })

/-- the score of a crystal state AS TRANSLATED FROM THE SOURCE (tools/rs2lean.py: `PackedState::score` /
`PotentialState::score` with everything below them down to the pair energies and areas); over the reals
it is `Crystal.score` (Proofs/TiePacked, TiePotential).  The driver scores states with it, so that the
correspondence compares the crate with its own translation bit for bit and a harmless re-association of
the crate's floating-point arithmetic does not change the comparison. -/
def genScore (st : Crystal Float) : Option Float :=
  match st.kind with
  | .hard => Gen.packed_score st
  | .lj => Gen.potential_score st

def scoreHex : Option Float → String
  | some x => "some " ++ fhex x
  | none => "none"

def execState (op : String) (ts : List String) : Option String :=
  let p : P String := do
    match (← pState) with
    | .error e => pure ("err " ++ e)
    | .ok st =>
      match op with
      | "score" => pure ("ok " ++ scoreHex (genScore st))
      | "params" => pure (s!"ok {st.totalShapes}" ++ String.join (st.heap.toList.map fun x => " " ++ fhex x))
      | "relpos" => pure ("ok " ++ matsHex st.relPositions)
      | "cartpos" => pure ("ok " ++ matsHex st.cartPositions)
      | "basis" => pure ("ok " ++ basisHex' st.heap st.handles.toList)
      | "label" => pure s!"ok {shex (String.ofList st.name)} {st.family.name}"
      | _ => failure
  (p.run ts).map (·.1)
where
  basisHex' (heap : Array Float) (hs : List (Handle Float)) : String :=
    let negInf : Float := -(1.0 / 0.0)
    let posInf : Float := 1.0 / 0.0
    let parts := hs.map fun h =>
      let v := h.getValue heap
      let (h1, heap1) := h.setValue heap negInf
      let lo := h1.getValue heap1
      let (h2, heap2) := h1.setValue heap1 posInf
      let hi := h2.getValue heap2
      s!" {fhex v} {fhex lo} {fhex hi}"
    s!"{hs.length}" ++ String.join parts

/-- `opt run|trace <cfg> crystal <state>` -/
def execOptCrystal (trace : Bool) (ts : List String) : Option String :=
  let p : P String := do
    let b ← pBuilder
    let kind ← tok
    if kind != "crystal" then failure
    match (← pState) with
    | .error e => pure ("err " ++ e)
    | .ok st =>
      let score : Nat → Array Float → Option Float := fun _ h => genScore (st.withHeap h)
      pure (optRun b st.heap st.handles score trace)
  (p.run ts).map (·.1)

end PV.Driver
