/-
  Driver/Opt.lean — `opt` request family: whole optimiser runs of the model at `Float` with the
  PCG port, on scripted score functions (and, via `Driver/State`, real crystal states).
-/
import Model.Optimiser
import Driver.Util

namespace PV.Driver
open PV

inductive Script
  | list (l : Array (Option Float))
  | bowl (cw : List (Float × Float)) (hole : Option (Nat × Float × Float))

/-- the scripted score of the harness (`opt.rs: Scripted::eval`) -/
def Script.eval (s : Script) (call : Nat) (v : Array Float) : Option Float :=
  match s with
  | .list l => if l.size == 0 then none else l[call % l.size]!
  | .bowl cw hole =>
    let blocked := match hole with
      | some (i, lo, hi) => match v[i]? with
        | some p => lo < p && p < hi
        | none => false
      | none => false
    if blocked then none else
      let acc := (cw.zipIdx).foldl (fun (acc : Float) (cwk : (Float × Float) × Nat) =>
        let p := v.getD cwk.2 0.0
        acc + cwk.1.2 * (p - cwk.1.1) * (p - cwk.1.1)) 0.0
      some (-acc)

def pOptF : P (Option Float) := do
  let s ← tok
  if s == "-" then pure none else
    match unfhex s with
    | some x => pure (some x)
    | none => failure

def pBuilder : P (Builder Float) := do
  let steps ← pNat; let inner ← pNat
  let ktStart ← pF; let ktFinish ← pOptF; let ktRatio ← pOptF
  let maxStep ← pF; let seed ← pNat; let conv ← pOptF
  pure { steps := steps, ktStart := ktStart, ktFinish := ktFinish, ktRatio := ktRatio,
         maxStep := maxStep, inner := inner, seed := some seed, convergence := conv }

structure ScriptedSt where
  heap : Array Float
  handles : List (Nat × Float × Float)
  script : Script

def pScripted : P ScriptedSt := do
  let cells ← pList pF
  let hs ← pList (do let a ← pNat; let lo ← pF; let hi ← pF; pure (a, lo, hi))
  if hs.any (fun (a, _, _) => a ≥ cells.length) then failure
  let kind ← tok
  let script ← match kind with
    | "list" => do
      let l ← pList (do
        let s ← tok
        if s == "N" then pure (none : Option Float) else
          match unfhex s with
          | some x => pure (some x)
          | none => failure)
      if l.isEmpty then failure
      pure (Script.list l.toArray)
    | "bowl" => do
      let cw ← pList (do let c ← pF; let w ← pF; pure (c, w))
      let h ← tok
      if h == "hole" then do
        let i ← pNat; let lo ← pF; let hi ← pF
        pure (Script.bowl cw (some (i, lo, hi)))
      else pure (Script.bowl cw none)
    | _ => failure
  pure ⟨cells.toArray, hs, script⟩

def hashStep (h : UInt64) (x : Float) : UInt64 :=
  let b : UInt64 := if x.isNaN then 0x7ff8000000000000 else x.toBits
  (h ^^^ b) * 0x100000001b3

def hash0 : UInt64 := 0xcbf29ce484222325

def panicName : PanicSite → String
  | .invalidInitial => "invalidInitial" | .emptyBasis => "emptyBasis" | .badIndex => "badIndex"
  | .divZero => "divZero" | .finalInvalid => "finalInvalid" | .noSeed => "noSeed"

/-- The sequence of heaps on which `score()` was called during a run: the initial heap, every
proposal, and (unless the run ended by convergence) the final heap. -/
def scoreCallHeaps (heap0 : Array Float) (r : Run Float) : List (Array Float) :=
  [heap0] ++ r.events.map (·.proposal) ++ (if r.converged then [] else [r.heap])

def runReply (heap0 : Array Float) (score : Nat → Array Float → Option Float) (r : Run Float)
    (trace : Bool) : String :=
  let heaps := scoreCallHeaps heap0 r
  let h := heaps.foldl (fun h v => v.foldl hashStep h) hash0
  let base := (s!"ok {r.calls} {hex16 h.toNat}" ++ String.join (r.heap.toList.map fun x => " " ++ fhex x))
  if !trace then base else
    let (_, out) := heaps.foldl (fun (acc : Nat × String) v =>
      let sc := match score acc.1 v with
        | some x => " =" ++ fhex x
        | none => " =N"
      (acc.1 + 1, acc.2 ++ " |" ++ String.join (v.toList.map fun x => " " ++ fhex x) ++ sc)) (0, base)
    out
where
  hex16 (n : Nat) : String :=
    String.ofList ((List.range 16).map fun i => hexDigit ((n / 16 ^ (15 - i)) % 16))

def optRun (b : Builder Float) (heap0 : Array Float) (hs : Array (Handle Float))
    (score : Nat → Array Float → Option Float) (trace : Bool) : String :=
  match b.build with
  | .panic p => "panic " ++ panicName p
  | .ok cfg =>
    match optimise score cfg pcgNext (Rand.seedFromU64 cfg.seed) heap0 hs with
    | .panic p => "panic " ++ panicName p
    | .ok r => runReply heap0 score r trace

def execOpt (op : String) (ts : List String) : Option String :=
  match op with
  | "build" => some "ok"
  | "run" | "trace" =>
    (do
      let b ← pBuilder
      let kind ← tok
      match kind with
      | "scripted" => do
        let st ← pScripted
        let hs := (st.handles.map fun (a, lo, hi) => Handle.new st.heap a lo hi).toArray
        pure (optRun b st.heap hs st.script.eval (op == "trace"))
      | _ => failure : P String).run ts |>.map (·.1)
  | _ => none

end PV.Driver
