/-
  Driver/Io.lean — `json`, `svg`, `cli` request families.
-/
import Model.Json
import Model.Svg
import Model.Cli
import Driver.State

namespace PV.Driver
open PV

/-- the `name` the crate's constructors give a shape, from the request's shape tokens -/
def shapeNameOf : List String → String
  | "poly" :: _ => "Polygon"
  | "radial" :: _ => "Radial"
  | "lines" :: _ => "Lines"
  | "circle" :: _ => "circle"
  | "trimer" :: _ => "Trimer"
  | "atoms" :: _ => "Atoms"
  | "ljcircle" :: _ => "circle"
  | "ljtrimer" :: _ => "Trimer"
  | "ljs" :: _ => "LJs"
  | _ => "?"

partial def dumpJ : J Float → String
  | .f x => " " ++ fhex x
  | .n k => s!" i{k}"
  | .b v => if v then " true" else " false"
  | .s str => " s" ++ shex str
  | .null => " null"
  | .arr xs => " [" ++ String.join (xs.map dumpJ) ++ " ]"
  | .obj fs => " {" ++ String.join (fs.map fun (k, v) => " " ++ k ++ dumpJ v) ++ " }"

def usesHex (us : List (SvgUse Float)) : String :=
  s!"{us.length}" ++ String.join (us.map fun u =>
    s!" {shex u.href} {shex u.fill} {fhex u.a} {fhex u.b} {fhex u.c} {fhex u.d} {fhex u.e} {fhex u.f}")

def execIo (fam op : String) (ts : List String) : Option String :=
  -- the shape tokens start at position 1 (after the kind)
  let shapeName := shapeNameOf (ts.drop 1)
  let p : P String := do
    match (← pState) with
    | .error e => pure ("err " ++ e)
    | .ok st =>
      match fam, op with
      | "json", "dump" => pure ("ok" ++ dumpJ (encCrystal shapeName st))
      | "json", "roundtrip" =>
        -- the model's decoder reads back exactly what the encoder wrote (C11 theorem); the
        -- implementation is expected to do the same through JSON text
        match decCrystal st.kind st.shape.kindOf (encCrystal shapeName st) with
        | some _ => pure "ok same"
        | none => pure "ok differs -"
      | "svg", "uses" => pure ("ok " ++ usesHex st.svgUses)
      | _, _ => failure
  (p.run ts).map (·.1)

/-- `cli run <threads|-> <replications> <steps> <inner> <kt_start|-> <kt_finish|-> <kt_ratio|-> <max_step|-> <conv|-> <group> <potential> <shape…>` -/
def execCli (ts : List String) : Option String :=
  let p : P String := do
    let _threads ← tok
    let reps ← pNat
    let steps ← pNat
    let inner ← pNat
    let ktStart ← pOptF
    let ktFinish ← pOptF
    let ktRatio ← pOptF
    let maxStep ← pOptF
    let conv ← pOptF
    let group ← tok
    let potential ← tok
    let shapeTok ← tok
    -- structopt defaults of the optimiser options (generated)
    let dflt (k : String) (d : Float) : Float :=
      match Generated.cliDefaults.find? (·.1 == k) with
      | some (_, v) => match v with
        | "0.1" => 0.1 | "0.01" => 0.01 | _ => d
      | none => d
    let b : Builder Float :=
      { steps := steps, ktStart := ktStart.getD (dflt "kt_start" 0.1), ktFinish := ktFinish,
        ktRatio := ktRatio, maxStep := maxStep.getD (dflt "max_step_size" 0.01), inner := inner,
        seed := none, convergence := conv }
    let entry? := Generated.tables.find? (fun e => e.variant == group.toList)
    match entry? with
    | none => pure "ok 1 error"
    | some e =>
      let ops := e.ops.filterMap fun s => match fromOperations (α := Float) s with
        | .ok m => some m
        | .error _ => none
      let mk (kind : Kind) (shape : Shape Float) : Crystal Float := Crystal.fromGroup kind shape e.name e.family ops
      -- main.rs: match (shape, potential)
      let st? : P (Option (String × Crystal Float)) :=
        match shapeTok, potential with
        | "polygon", "Hard" => do
          let sides ← pNat
          pure ((Shape.polygon sides).map fun sh => ("Polygon", mk .hard sh))
        | "polygon", _ => do let _ ← pNat; pure none
        | "circle", "Hard" => pure (some ("circle", mk .hard Shape.molCircle))
        | "circle", "LJ" => pure (some ("circle", mk .lj Shape.ljCircle))
        | "trimer", pot => do
          let r ← pF; let a ← pF; let d ← pF
          if pot == "Hard" then pure (some ("Trimer", mk .hard (Shape.molTrimer r a d)))
          else if pot == "LJ" then pure (some ("Trimer", mk .lj (Shape.ljTrimer r a d)))
          else pure none
        | _, _ => pure none
      match (← st?) with
      | none => pure "ok 1 error"
      | some (sname, st) =>
        match cliRun pcgNext Rand.seedFromU64 b st reps genScore with
        | .panic _ => pure "ok panic"
        | .error _ => pure "ok 1 error"
        | .written best v => pure ("ok 0 written" ++ dumpJ (encCrystal sname best) ++ " score " ++ fhex v ++ " svg 1")
  (p.run ts).map (·.1)

end PV.Driver
