/-
  Driver/Main.lean — the model behind a one-line-in, one-line-out protocol.
  The harness (`pvh`) runs the real crate on the same request lines; `check` diffs the replies.
-/
import Model.Parser
import Model.Site
import Model.Basis
import Model.Rand
import Generated.Tables
import Driver.Util
import Driver.Opt
import Driver.State
import Driver.Io

open PV PV.Driver

def parseErrStr : ParseErr → String
  | .tooFew => "err tooFew"
  | .tooMany => "err tooMany"
  | .invalid c => s!"err invalid {c.toNat}"

def famOfString : String → Option Family
  | "Monoclinic" => some .Monoclinic | "Orthorhombic" => some .Orthorhombic
  | "Hexagonal" => some .Hexagonal | "Tetragonal" => some .Tetragonal | _ => none

def pCell : P (Cell Float) := do
  let l ← pF; let r ← pF; let a ← pF
  match famOfString (← tok) with
  | some f => pure ⟨l, r, a, f⟩
  | none => failure

def pSite : P (Site Float) := do
  let ops ← pList pMat
  let x ← pF; let y ← pF; let a ← pF
  pure ⟨ops, x, y, a⟩

def run {β : Type} (p : P β) (ts : List String) : Option β := (p.run ts).map (·.1)

/-- a finite double can be injected through JSON; a non-finite one cannot (`err inject`) -/
def finite (x : Float) : Bool := x.isFinite

def cellFinite (c : Cell Float) : Bool := finite c.length && finite c.ratio && finite c.angle

def hex16 (n : Nat) : String :=
  String.ofList ((List.range 16).map fun i => hexDigit ((n / 16 ^ (15 - i)) % 16))

def negInf : Float := -(1.0 / 0.0)
def posInf : Float := 1.0 / 0.0

/-- observe handles the way the harness does: value, clamp of -inf, clamp of +inf -/
def basisHex (heap : Array Float) (hs : List (Handle Float)) : String :=
  let parts := hs.map fun h =>
    let v := h.getValue heap
    let (h1, heap1) := h.setValue heap negInf
    let lo := h1.getValue heap1
    let (h2, heap2) := h1.setValue heap1 posInf
    let hi := h2.getValue heap2
    s!" {fhex v} {fhex lo} {fhex hi}"
  s!"{hs.length}" ++ String.join parts

partial def rngRaw (g : Rand.Pcg) (n : Nat) (acc : String) : String :=
  if n == 0 then acc else
    let (v, g) := g.next
    rngRaw g (n - 1) (acc ++ " " ++ hex16 v)

def execRng (op : String) (ts : List String) : Option String :=
  run (do
    let seed ← pNat; let n ← pNat
    let g := Rand.seedFromU64 seed
    match op with
    | "raw" => pure (rngRaw g n "ok")
    | "index" => do
      let m ← pNat
      let r := (List.range n).foldl (fun (acc : String × Rand.Pcg) _ =>
        let (v, g) := Rand.sampleIndex m acc.2
        (acc.1 ++ s!" {v}", g)) ("ok", g)
      pure r.1
    | "range" =>
      let r := (List.range n).foldl (fun (acc : String × Rand.Pcg) _ =>
        let (v, g) := acc.2.next
        (acc.1 ++ " " ++ fhex (Rand.genRangeHalf v), g)) ("ok", g)
      pure r.1
    | "unit" =>
      let r := (List.range n).foldl (fun (acc : String × Rand.Pcg) _ =>
        let (v, g) := acc.2.next
        (acc.1 ++ " " ++ fhex (Rand.genUnit v), g)) ("ok", g)
      pure r.1
    -- exact rational value of the drawn double against the closed forms of Proofs/C07Draw.lean:
    -- `unitq`: gen::<f64>() = (v >>> 11) / 2^53 ; `halfq`: gen_range(-0.5, 0.5) = (v >>> 12) / 2^52 - 1/2
    | "unitq" =>
      let r := (List.range n).foldl (fun (acc : String × Rand.Pcg) _ =>
        let (v, g) := acc.2.next
        let u := Rand.genUnit v
        let (neg, m, e) := floatParts u
        -- u = m·2^e  must equal  (v >>> 11)·2^-53
        let exact := !neg && (if e + 53 ≥ 0 then m * 2 ^ (e + 53).toNat == v >>> 11 else m == (v >>> 11) * 2 ^ (-(e + 53)).toNat)
        (acc.1 ++ " " ++ fhex u ++ (if exact then " exact" else " INEXACT-MODEL"), g)) ("ok", g)
      pure r.1
    | "halfq" =>
      let r := (List.range n).foldl (fun (acc : String × Rand.Pcg) _ =>
        let (v, g) := acc.2.next
        let u := Rand.genRangeHalf v
        let (neg, m, e) := floatParts u
        -- u = ±m·2^e  must equal  ((v >>> 12) - 2^51)·2^-52
        let want : Int := Int.ofNat (v >>> 12) - 2 ^ 51
        let got : Int := if neg then -Int.ofNat m else Int.ofNat m
        let exact := if u == 0.0 then want == 0
          else if e + 52 ≥ 0 then got * 2 ^ (e + 52).toNat == want else got == want * 2 ^ (-(e + 52)).toNat
        (acc.1 ++ " " ++ fhex u ++ (if exact then " exact" else " INEXACT-MODEL"), g)) ("ok", g)
      pure r.1
    | "mixed" => do
      let m ← pNat
      let r := (List.range n).foldl (fun (acc : String × Rand.Pcg) _ =>
        let (i, g) := Rand.sampleIndex m acc.2
        let (v, g) := g.next
        let (u, g) := g.next
        (acc.1 ++ s!" {i} {fhex (Rand.genRangeHalf v)} {fhex (Rand.genUnit u)}", g)) ("ok", g)
      pure r.1
    | _ => failure) ts

/-- `basis seq …`: a sequence of set/reset/get/sample/setsampled on handles over one heap -/
def execBasisSeq (ts : List String) : Option String :=
  run (do
    let cells ← pList pF
    let hspecs ← pList (do let a ← pNat; let lo ← pF; let hi ← pF; pure (a, lo, hi))
    let heap0 : Array Float := cells.toArray
    if hspecs.any (fun (a, _, _) => a ≥ heap0.size) then failure
    let hs0 : Array (Handle Float) := (hspecs.map fun (a, lo, hi) => Handle.new heap0 a lo hi).toArray
    let nops ← pNat
    let rec go : Nat → Array Float → Array (Handle Float) → String → P String
      | 0, _, _, out => pure out
      | k + 1, heap, hs, out => do
        let op ← tok
        let hi ← pNat
        match hs[hi]? with
        | none => failure
        | some h =>
          let dump (heap : Array Float) : String := String.join (heap.toList.map fun x => " " ++ fhex x) ++ " |"
          match op with
          | "set" => do
            let v ← pF
            let (h', heap') := h.setValue heap v
            go k heap' (hs.set! hi h') (out ++ dump heap')
          | "reset" =>
            let heap' := h.resetValue heap
            go k heap' hs (out ++ dump heap')
          | "get" => go k heap hs (out ++ " g" ++ fhex (h.getValue heap) ++ dump heap)
          | "sample" => do
            let step ← pF
            match parseHexNat (← tok) with
            | none => failure
            | some raw =>
              go k heap hs (out ++ " s" ++ fhex (h.sample heap step (Rand.genRangeHalf raw)) ++ dump heap)
          | "setsampled" => do
            let step ← pF
            match parseHexNat (← tok) with
            | none => failure
            | some raw =>
              let (h', heap') := h.setSampled heap step (Rand.genRangeHalf raw)
              go k heap' (hs.set! hi h') (out ++ dump heap')
          | _ => failure
    go nops heap0 hs0 "ok") ts

def execMat (op : String) (ts : List String) : Option String :=
  match op with
  | "mul" => run (do let a ← pMat; let b ← pMat; pure ("ok " ++ matHex (a.mul b))) ts
  | "apply" => run (do let a ← pMat; let x ← pF; let y ← pF; pure ("ok " ++ ptHex (a.apply ⟨x, y⟩))) ts
  | "new" => run (do let r ← pF; let x ← pF; let y ← pF; pure ("ok " ++ matHex (Mat3.new r x y))) ts
  | "position" => run (do let a ← pMat; pure ("ok " ++ ptHex a.position)) ts
  | "periodic" => run (do let a ← pMat; let p ← pF; let o ← pF; pure ("ok " ++ matHex (a.periodic p o))) ts
  | _ => none

def execCell (op : String) (ts : List String) : Option String :=
  if op == "fromfamily" then
    run (do
      let f ← tok
      let len ← pF
      match famOfString f with
      | some fam =>
        let c := Cell.fromFamily (α := Float) fam len
        pure s!"ok {fhex c.length} {fhex c.ratio} {fhex c.angle} {c.family.name}"
      | none => failure) ts
  else
    run (do
      let c ← pCell
      if !cellFinite c then return "err inject"
      match op with
      | "cart" => do
        let x ← pF; let y ← pF
        let r := c.toCartesian x y
        pure s!"ok {fhex r.1} {fhex r.2}"
      | "area" => pure ("ok " ++ fhex c.area)
      | "ab" => pure s!"ok {fhex c.a} {fhex c.b} {fhex c.angle}"
      | "center" => pure ("ok " ++ ptHex c.center)
      | "corners" => pure ("ok " ++ " ".intercalate (c.corners.map ptHex))
      | "iso" => do let m ← pMat; pure ("ok " ++ matHex (c.toCartesianIsometry m))
      | "dof" =>
        let heap : Array Float := #[c.length, c.ratio, c.angle]
        pure ("ok " ++ basisHex heap (cellHandles heap c.family))
      | "images" => do
        let m ← pMat; let k ← pInt; let z ← tok
        pure ("ok " ++ matsHex (c.periodicImages m k (z == "1")))
      | _ => failure) ts

def execSite (op : String) (ts : List String) : Option String :=
  match op with
  | "fromwyckoff" => run (do
      let ops ← pList pMat
      let s := Site.fromWyckoff (α := Float) ops
      pure s!"ok {fhex s.x} {fhex s.y} {fhex s.angle} {s.multiplicity}") ts
  | "positions" => run (do
      let s ← pSite
      if !(finite s.x && finite s.y && finite s.angle) then return "err inject"
      pure ("ok " ++ matsHex s.positions)) ts
  | "transform" => run (do let s ← pSite; pure ("ok " ++ matHex s.transform)) ts
  | "basis" => run (do
      let s ← pSite
      let rot ← pNat
      let heap : Array Float := #[0.0, 0.0, 0.0, s.x, s.y, s.angle]
      pure ("ok " ++ basisHex heap (siteHandles heap 3 rot))) ts
  | _ => none

def execToks (t : List String) : Option String :=
  match t with
  | "mat" :: op :: ts => execMat op ts
  | "cell" :: op :: ts => execCell op ts
  | "site" :: op :: ts => execSite op ts
  | "rng" :: op :: ts => execRng op ts
  | "opt" :: op :: ts =>
    match execOpt op ts with
    | some r => some r
    | none => if op == "run" || op == "trace" then execOptCrystal (op == "trace") ts else none
  | "pair" :: op :: ts => execPair op ts
  | "json" :: op :: ts => execIo "json" op ts
  | "svg" :: op :: ts => execIo "svg" op ts
  | "cli" :: "run" :: ts => execCli ts
  | "state" :: op :: ts => execState op ts
  | "basis" :: "seq" :: ts => execBasisSeq ts
  | "wrap" :: "xy" :: ts => run (do
      let p ← pF; let o ← pF; let x ← pF; let y ← pF
      let t := (Mat3.new (α := Float) 0.0 x y).periodic p o
      pure ("ok " ++ ptHex t.position)) ts
  | ["parse", "ops", h] => do
    let s ← unshex h
    match fromOperations (α := Float) s.toList with
    | .ok m => some ("ok " ++ matHex m)
    | .error e => some (parseErrStr e)
  | ["tables", "group", raw] => do
    let name ← if raw.startsWith "hex:" then unshex (raw.drop 4).toString else some raw
    match Generated.tables.find? (fun e => e.variant == name.toList) with
    | none => some "err unknown"
    | some e =>
      let mats := e.ops.map fun s => fromOperations (α := Float) s
      if mats.all (fun r => match r with | .ok _ => true | .error _ => false) then
        let ms := mats.filterMap fun r => match r with | .ok m => some (matHex m) | .error _ => none
        some (s!"ok {shex (String.ofList e.name)} {e.family.name} {e.ops.length} " ++ " ".intercalate ms)
      else some "err other -"
  | _ => none

def execLine (line : String) : String :=
  if line.startsWith "#" || line.trimAscii.toString.isEmpty then line
  else
    let toks := (line.trimAscii.toString.splitOn " ").filter (· ≠ "")
    match execToks toks with
    | some r => r
    | none => "bad-request"

partial def loop (h : IO.FS.Stream) (out : IO.FS.Stream) : IO Unit := do
  let line ← h.getLine
  if line.isEmpty then return ()
  let line := if line.endsWith "\n" then (line.dropEnd 1).toString else line
  out.putStrLn (execLine line)
  loop h out

def main : IO Unit := do
  let stdin ← IO.getStdin
  let stdout ← IO.getStdout
  loop stdin stdout
