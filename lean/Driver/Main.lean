/-
  Driver/Main.lean — the model behind a one-line-in, one-line-out protocol.
  The harness (`pvh`) runs the real crate on the same request lines; `check` diffs the replies.
-/
import Model.Parser
import Generated.Tables
import Driver.Util

open PV PV.Driver

def parseErrStr : ParseErr → String
  | .tooFew => "err tooFew"
  | .tooMany => "err tooMany"
  | .invalid c => s!"err invalid {c.toNat}"

def execToks (t : List String) : Option String :=
  match t with
  | ["parse", "ops", h] => do
    let s ← unshex h
    match fromOperations (α := Float) s.toList with
    | .ok m => some ("ok " ++ matHex m)
    | .error e => some (parseErrStr e)
  | ["tables", "group", raw] => do
    let name ← if raw.startsWith "hex:" then unshex (raw.drop 4).toString else some raw
    match Generated.tables.find? (fun e => e.variant == name.toList) with
    | none => some "err unknown"
    | some e =>
      let mats := e.ops.map fun s => fromOperations (α := Float) s
      if mats.all (fun r => match r with | .ok _ => true | .error _ => false) then
        let ms := mats.filterMap fun r => match r with | .ok m => some (matHex m) | .error _ => none
        some (s!"ok {shex (String.ofList e.name)} {e.family.name} {e.ops.length} " ++ " ".intercalate ms)
      else some "err other -"
  | _ => none

def execLine (line : String) : String :=
  if line.startsWith "#" || line.trimAscii.toString.isEmpty then line
  else
    let toks := (line.trimAscii.toString.splitOn " ").filter (· ≠ "")
    match execToks toks with
    | some r => r
    | none => "bad-request"

partial def loop (h : IO.FS.Stream) (out : IO.FS.Stream) : IO Unit := do
  let line ← h.getLine
  if line.isEmpty then return ()
  let line := if line.endsWith "\n" then (line.dropEnd 1).toString else line
  out.putStrLn (execLine line)
  loop h out

def main : IO Unit := do
  let stdin ← IO.getStdin
  let stdout ← IO.getStdout
  loop stdin stdout
