/-
  Driver/Util.lean — line-protocol codecs (hex floats, hex UTF-8 strings).
-/
import Model.Mat3

namespace PV.Driver

def hexDigit (n : Nat) : Char :=
  if n < 10 then Char.ofNat (48 + n) else Char.ofNat (87 + n)

def fhex (x : Float) : String :=
  -- every NaN is one canonical token
  let b := if x.isNaN then 0x7ff8000000000000 else x.toBits.toNat
  String.ofList ((List.range 16).map fun i => hexDigit ((b / 16 ^ (15 - i)) % 16))

def hexVal (c : Char) : Option Nat :=
  if '0' ≤ c ∧ c ≤ '9' then some (c.toNat - 48)
  else if 'a' ≤ c ∧ c ≤ 'f' then some (c.toNat - 87)
  else if 'A' ≤ c ∧ c ≤ 'F' then some (c.toNat - 55)
  else none

def parseHexNat (s : String) : Option Nat :=
  s.toList.foldl (fun acc c => match acc, hexVal c with
    | some a, some v => some (a * 16 + v)
    | _, _ => none) (some 0)

def unfhex (s : String) : Option Float :=
  if s.length != 16 then none else (parseHexNat s).map fun n => Float.ofBits n.toUInt64

def unshex (s : String) : Option String :=
  if s == "-" then some "" else
  let cs := s.toList
  if cs.length % 2 != 0 then none else
  let rec go : List Char → ByteArray → Option ByteArray
    | a :: b :: rest, acc => match hexVal a, hexVal b with
      | some x, some y => go rest (acc.push (x * 16 + y).toUInt8)
      | _, _ => none
    | [], acc => some acc
    | _, _ => none
  match go cs ByteArray.empty with
  | some ba => String.fromUTF8? ba
  | none => none

def shex (s : String) : String :=
  if s.isEmpty then "-" else
  String.ofList (s.toUTF8.toList.flatMap fun b => [hexDigit (b.toNat / 16), hexDigit (b.toNat % 16)])

def matHex (m : PV.Mat3 Float) : String :=
  " ".intercalate ([m.m00, m.m01, m.m02, m.m10, m.m11, m.m12, m.m20, m.m21, m.m22].map fhex)

def ptHex (p : PV.Pt Float) : String := fhex p.x ++ " " ++ fhex p.y

/-- token cursor: a state monad over the remaining tokens -/
abbrev P := StateT (List String) Option

def tok : P String := do
  match (← get) with
  | [] => failure
  | t :: ts => set ts; pure t

def pF : P Float := do
  match unfhex (← tok) with
  | some x => pure x
  | none => failure

def pInt : P Int := do
  match (← tok).toInt? with
  | some x => pure x
  | none => failure

def pNat : P Nat := do
  match (← tok).toNat? with
  | some x => pure x
  | none => failure

def pMat : P (PV.Mat3 Float) := do
  let a ← pF; let b ← pF; let c ← pF; let d ← pF; let e ← pF; let f ← pF; let g ← pF; let h ← pF; let i ← pF
  pure ⟨a, b, c, d, e, f, g, h, i⟩

def pList {β : Type} (p : P β) : P (List β) := do
  let n ← pNat
  let rec go : Nat → List β → P (List β)
    | 0, acc => pure acc.reverse
    | k + 1, acc => do let x ← p; go k (x :: acc)
  go n []

def matsHex (ms : List (PV.Mat3 Float)) : String :=
  (s!"{ms.length} " ++ " ".intercalate (ms.map matHex)).trimAsciiEnd.toString

end PV.Driver
