/-
  Spec/Groups.lean — reference description of the seven plane groups the crate supports, typed in
  from International Tables for Crystallography vol. A (plane groups 1, 2, 3, 4, 6, 7, 8,
  standard setting, general positions), together with the *specification-level* notions used by
  C16/C04: affine operations over ℚ, composition, equality modulo lattice translations, content
  (two-fold rotations, mirrors, glides) and the crystal family.

  Core Lean only; everything here is executable and decidable.
-/
import Model.Family
import Model.Mat3

namespace PV.Spec

/-- an affine map of the plane in fractional coordinates: `p ↦ L p + t`. -/
structure Aff where
  a : Rat  -- L = [[a, b], [c, d]]
  b : Rat
  c : Rat
  d : Rat
  tx : Rat
  ty : Rat
deriving Repr, DecidableEq

/-- `(g ∘ h)(p) = g (h p)`. -/
def Aff.comp (g h : Aff) : Aff :=
  { a := g.a * h.a + g.b * h.c, b := g.a * h.b + g.b * h.d,
    c := g.c * h.a + g.d * h.c, d := g.c * h.b + g.d * h.d,
    tx := g.a * h.tx + g.b * h.ty + g.tx, ty := g.c * h.tx + g.d * h.ty + g.ty }

def Aff.id : Aff := ⟨1, 0, 0, 1, 0, 0⟩

def isInt (r : Rat) : Bool := r.den == 1

/-- same linear part, translations differ by a lattice vector (ℤ²). -/
def Aff.equivModLattice (g h : Aff) : Bool :=
  g.a == h.a && g.b == h.b && g.c == h.c && g.d == h.d && isInt (g.tx - h.tx) && isInt (g.ty - h.ty)

def Aff.det (g : Aff) : Rat := g.a * g.d - g.b * g.c

/-- linear part is `-I`: a two-fold rotation. -/
def Aff.isTwoFold (g : Aff) : Bool := g.a == -1 && g.b == 0 && g.c == 0 && g.d == -1

def Aff.isReflection (g : Aff) : Bool := g.det == -1

/-- the intrinsic (glide) translation of a reflection `g` is `½ (L t + t)`; the reflection is a
mirror iff it is a lattice vector, a glide reflection otherwise. -/
def Aff.glideX (g : Aff) : Rat := (g.a * g.tx + g.b * g.ty + g.tx) / 2
def Aff.glideY (g : Aff) : Rat := (g.c * g.tx + g.d * g.ty + g.ty) / 2
def Aff.isMirror (g : Aff) : Bool := g.isReflection && isInt g.glideX && isInt g.glideY
def Aff.isGlide (g : Aff) : Bool := g.isReflection && !(isInt g.glideX && isInt g.glideY)

/-- the affine map a parsed operation matrix denotes (rows 0 and 1; the parser leaves row 2 zero). -/
def affOfMat (m : Mat3 Rat) : Aff := ⟨m.m00, m.m01, m.m10, m.m11, m.m02, m.m12⟩

structure Content where
  order : Nat
  twoFolds : Nat
  mirrors : Nat
  glides : Nat
deriving Repr, DecidableEq

def content (ops : List Aff) : Content :=
  { order := ops.length
    twoFolds := (ops.filter Aff.isTwoFold).length
    mirrors := (ops.filter Aff.isMirror).length
    glides := (ops.filter Aff.isGlide).length }

/-- linear part `±I` (leaves every cell invariant) -/
def Aff.linIsPlusMinusI (g : Aff) : Bool :=
  g.b == 0 && g.c == 0 && ((g.a == 1 && g.d == 1) || (g.a == -1 && g.d == -1))

/-- linear part `diag(±1, ±1)` (leaves every rectangular cell invariant) -/
def Aff.linIsDiagSign (g : Aff) : Bool :=
  g.b == 0 && g.c == 0 && (g.a == 1 || g.a == -1) && (g.d == 1 || g.d == -1)

/-- the crystal family whose cells a set of operations leaves invariant: oblique (Monoclinic in the
crate's 2D naming) if every linear part is `±I`; rectangular (Orthorhombic) if every linear part is
`diag(±1,±1)` and some is not `±I`. -/
def familyOf (ops : List Aff) : Option Family :=
  if ops.all Aff.linIsPlusMinusI then some .Monoclinic
  else if ops.all Aff.linIsDiagSign then some .Orthorhombic
  else none

/-- ITA general positions, standard setting. -/
def reference : List (List Char × Family × Content × List Aff) :=
  let I : Aff := ⟨1, 0, 0, 1, 0, 0⟩
  let half : Rat := 1 / 2
  [ ("p1".toList,   .Monoclinic,   ⟨1, 0, 0, 0⟩, [I]),
    ("p2".toList,   .Monoclinic,   ⟨2, 1, 0, 0⟩, [I, ⟨-1, 0, 0, -1, 0, 0⟩]),
    ("p1m1".toList, .Orthorhombic, ⟨2, 0, 1, 0⟩, [I, ⟨-1, 0, 0, 1, 0, 0⟩]),
    ("p1g1".toList, .Orthorhombic, ⟨2, 0, 0, 1⟩, [I, ⟨-1, 0, 0, 1, 0, half⟩]),
    ("p2mm".toList, .Orthorhombic, ⟨4, 1, 2, 0⟩,
      [I, ⟨-1, 0, 0, -1, 0, 0⟩, ⟨-1, 0, 0, 1, 0, 0⟩, ⟨1, 0, 0, -1, 0, 0⟩]),
    ("p2mg".toList, .Orthorhombic, ⟨4, 1, 1, 1⟩,
      [I, ⟨-1, 0, 0, -1, 0, 0⟩, ⟨-1, 0, 0, 1, half, 0⟩, ⟨1, 0, 0, -1, half, 0⟩]),
    ("p2gg".toList, .Orthorhombic, ⟨4, 1, 0, 2⟩,
      [I, ⟨-1, 0, 0, -1, 0, 0⟩, ⟨-1, 0, 0, 1, half, half⟩, ⟨1, 0, 0, -1, half, half⟩]) ]

def referenceFor (name : List Char) : Option (Family × Content × List Aff) :=
  (reference.find? (·.1 == name)).map (·.2)

/-- closed under composition modulo the lattice -/
def closed (ops : List Aff) : Bool :=
  ops.all fun g => ops.all fun h => ops.any fun k => (g.comp h).equivModLattice k

/-- every operation has an inverse in the list modulo the lattice -/
def hasInverses (ops : List Aff) : Bool :=
  ops.all fun g => ops.any fun h => (g.comp h).equivModLattice Aff.id && (h.comp g).equivModLattice Aff.id

/-- no two listed operations coincide modulo the lattice -/
def distinctModLattice : List Aff → Bool
  | [] => true
  | g :: rest => rest.all (fun h => !g.equivModLattice h) && distinctModLattice rest

end PV.Spec
