import Proofs.C13
import Proofs.TieLJ
import Proofs.TieLJShape
import Proofs.SrcC13
import Proofs.TieOps
import Proofs.TieCtor
#print axioms PV.Proofs.C13.powi2
#print axioms PV.Proofs.C13.powi3
#print axioms PV.Proofs.C13.powi6
#print axioms PV.Proofs.C13.powi12
#print axioms PV.Proofs.C13.normSq_real
#print axioms PV.Proofs.C13.shift_eq
#print axioms PV.Proofs.C13.energy_none
#print axioms PV.Proofs.C13.energy_some
#print axioms PV.Proofs.C13.foldl_add_real
#print axioms PV.Proofs.C13.fsum_real
#print axioms PV.Proofs.C13.sum_flatMap_real
#print axioms PV.Proofs.C13.lj_of_distance
#print axioms PV.Proofs.C13.lj_uncut
#print axioms PV.Proofs.C13.lj_cut_inside
#print axioms PV.Proofs.C13.lj_cut_outside
#print axioms PV.Proofs.C13.lj_zero_at_cutoff
#print axioms PV.Proofs.C13.lj_distance_only
#print axioms PV.Proofs.C13.lj_rigid_invariant
#print axioms PV.Proofs.C13.lj_min
#print axioms PV.Proofs.C13.lj_min_iff
#print axioms PV.Proofs.C13.lj_symm_partial
#print axioms PV.Proofs.C13.shape_energy_sum
#print axioms PV.Proofs.C13.declared_trimer_constants
#print axioms PV.Proofs.C13.trimer_particles
#print axioms PV.Proofs.C13.lj_asymmetric_unlike
#print axioms PV.Proofs.Tie.declared_translated_lj
#print axioms PV.Proofs.Tie.lj2_energy_tie
#print axioms PV.Proofs.Tie.declared_translated_ljshape
#print axioms PV.Proofs.Tie.ljshape_energy_tie
#print axioms PV.Proofs.Tie.ljshape_radius_tie
#print axioms PV.Proofs.Source.C13_source_uncut
#print axioms PV.Proofs.Source.C13_source_cut_inside
#print axioms PV.Proofs.Source.C13_source_cut_outside
#print axioms PV.Proofs.Source.C13_source_molecule
#print axioms PV.Proofs.Tie.declared_translated_ops
#print axioms PV.Proofs.Tie.atom2_mul_right_tie
#print axioms PV.Proofs.Tie.atom2_mul_left_tie
#print axioms PV.Proofs.Tie.line2_mul_right_tie
#print axioms PV.Proofs.Tie.line2_mul_left_tie
#print axioms PV.Proofs.Tie.lj2_mul_right_tie
#print axioms PV.Proofs.Tie.lj2_mul_left_tie
#print axioms PV.Proofs.Tie.lineshape_transform_tie
#print axioms PV.Proofs.Tie.molshape_transform_tie
#print axioms PV.Proofs.Tie.ljshape_transform_tie
#print axioms PV.Proofs.TieCtor.declared_translated_ctor
#print axioms PV.Proofs.TieCtor.mol_circle_tie
#print axioms PV.Proofs.TieCtor.lj_circle_tie
#print axioms PV.Proofs.TieCtor.mol_from_trimer_tie
#print axioms PV.Proofs.TieCtor.lj_from_trimer_tie
#print axioms PV.Proofs.TieCtor.foldlM_push
#print axioms PV.Proofs.TieCtor.filterMap_range_eq_map
#print axioms PV.Proofs.TieCtor.cycleTake_one
#print axioms PV.Proofs.TieCtor.line2_new_tie
#print axioms PV.Proofs.TieCtor.foldlM_push'
#print axioms PV.Proofs.TieCtor.from_radial_loop_tie
#print axioms PV.Proofs.TieCtor.from_radial_tie
#print axioms PV.Proofs.TieCtor.polygon_tie
