import Proofs.C18
import Proofs.TieBuild
import Proofs.TieLoopTail
import Proofs.SrcC18
#print axioms PV.Proofs.C18.kt_in_loop
#print axioms PV.Proofs.C18.loops_in_order
#print axioms PV.Proofs.C18.factor_ratio
#print axioms PV.Proofs.C18.build_finish
#print axioms PV.Proofs.C18.factor_finish
#print axioms PV.Proofs.C18.last_loop_temperature
#print axioms PV.Proofs.C18.zero_stays_zero
#print axioms PV.Proofs.Tie.declared_translated_build
#print axioms PV.Proofs.Tie.build_inner_tie
#print axioms PV.Proofs.Tie.build_kt_ratio_tie
#print axioms PV.Proofs.Tie.build_loops_tie
#print axioms PV.Proofs.Tie.declared_translated_looptail
#print axioms PV.Proofs.Tie.loop_tail_tie
#print axioms PV.Proofs.Tie.loop_tail_frame
#print axioms PV.Proofs.Source.C18_source_factor_ratio
#print axioms PV.Proofs.Source.C18_source_factor_finish
