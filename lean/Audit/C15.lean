import Proofs.C15
import Proofs.TieWrap
import Proofs.TieSite
import Proofs.SrcC15
#print axioms PV.Proofs.C15.declared_wrap_constants
#print axioms PV.Proofs.C15.wrap_range
#print axioms PV.Proofs.C15.wrap_congr
#print axioms PV.Proofs.C15.wrap_periodic
#print axioms PV.Proofs.C15.wrap_id_on_cell
#print axioms PV.Proofs.C15.period_eval
#print axioms PV.Proofs.C15.offset_eval
#print axioms PV.Proofs.C15.positions_eq
#print axioms PV.Proofs.C15.position_of
#print axioms PV.Proofs.C15.placed
#print axioms PV.Proofs.C15.positions_length
#print axioms PV.Proofs.C15.positions_spec
#print axioms PV.Proofs.C15.site_lattice_invariant
#print axioms PV.Proofs.C15.tables_integral
#print axioms PV.Proofs.Tie.declared_translated_wrap
#print axioms PV.Proofs.Tie.periodic_position_tie
#print axioms PV.Proofs.Tie.declared_translated_site
#print axioms PV.Proofs.Tie.site_transform_tie
#print axioms PV.Proofs.Tie.site_multiplicity_tie
#print axioms PV.Proofs.Tie.site_positions_tie
#print axioms PV.Proofs.Source.C15_source_count
