import Proofs.C03
import Proofs.TieLJ
import Proofs.TieLJShape
import Proofs.TiePotential
import Proofs.TieImages
import Proofs.TieSite
import Proofs.SrcC03
import Proofs.TieShapeDispatch
import Proofs.TieOps
#print axioms PV.Proofs.C03.declared_lj_constants
#print axioms PV.Proofs.C03.w_eval
#print axioms PV.Proofs.C03.score_unfold
#print axioms PV.Proofs.C03.cart_eq
#print axioms PV.Proofs.C03.envEnergy_split
#print axioms PV.Proofs.C03.inCell_eq
#print axioms PV.Proofs.C03.periodic_eq
#print axioms PV.Proofs.C03.score_per_molecule
#print axioms PV.Proofs.C03.totalShapes_eq_positions
#print axioms PV.Proofs.C03.energy_symm_like
#print axioms PV.Proofs.C03.circle_symm
#print axioms PV.Proofs.C03.le_nrm_of_sq_le
#print axioms PV.Proofs.C03.nrm_le_of_sq_le
#print axioms PV.Proofs.C03.far_pairs_vanish
#print axioms PV.Proofs.C03.box_exhausts_cutoff
#print axioms PV.Proofs.Tie.declared_translated_lj
#print axioms PV.Proofs.Tie.lj2_energy_tie
#print axioms PV.Proofs.Tie.declared_translated_ljshape
#print axioms PV.Proofs.Tie.ljshape_energy_tie
#print axioms PV.Proofs.Tie.ljshape_radius_tie
#print axioms PV.Proofs.Tie.declared_translated_potential
#print axioms PV.Proofs.Tie.potential_total_shapes_tie
#print axioms PV.Proofs.Tie.potential_relative_positions_tie
#print axioms PV.Proofs.Tie.potential_cartesian_positions_tie
#print axioms PV.Proofs.Tie.potential_constants_real
#print axioms PV.Proofs.Tie.potential_score_tie
#print axioms PV.Proofs.Tie.declared_translated_images
#print axioms PV.Proofs.Tie.to_cartesian_point_tie
#print axioms PV.Proofs.Tie.to_cartesian_isometry_tie
#print axioms PV.Proofs.Tie.to_cartesian_translate_tie
#print axioms PV.Proofs.Tie.periodic_images_tie
#print axioms PV.Proofs.Tie.declared_translated_site
#print axioms PV.Proofs.Tie.site_transform_tie
#print axioms PV.Proofs.Tie.site_multiplicity_tie
#print axioms PV.Proofs.Tie.site_positions_tie
#print axioms PV.Proofs.Source.C03_source
#print axioms PV.Proofs.Tie.shape_intersects_tie
#print axioms PV.Proofs.Tie.shape_area_tie
#print axioms PV.Proofs.Tie.shape_radius_tie
#print axioms PV.Proofs.Tie.shape_transform_tie
#print axioms PV.Proofs.Tie.shape_energy_tie
#print axioms PV.Proofs.Tie.declared_translated_ops
#print axioms PV.Proofs.Tie.atom2_mul_right_tie
#print axioms PV.Proofs.Tie.atom2_mul_left_tie
#print axioms PV.Proofs.Tie.line2_mul_right_tie
#print axioms PV.Proofs.Tie.line2_mul_left_tie
#print axioms PV.Proofs.Tie.lj2_mul_right_tie
#print axioms PV.Proofs.Tie.lj2_mul_left_tie
#print axioms PV.Proofs.Tie.lineshape_transform_tie
#print axioms PV.Proofs.Tie.molshape_transform_tie
#print axioms PV.Proofs.Tie.ljshape_transform_tie
