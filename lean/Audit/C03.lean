import Proofs.C03
#print axioms PV.Proofs.C03.declared_lj_constants
#print axioms PV.Proofs.C03.w_eval
#print axioms PV.Proofs.C03.score_unfold
#print axioms PV.Proofs.C03.cart_eq
#print axioms PV.Proofs.C03.envEnergy_split
#print axioms PV.Proofs.C03.inCell_eq
#print axioms PV.Proofs.C03.periodic_eq
#print axioms PV.Proofs.C03.score_per_molecule
#print axioms PV.Proofs.C03.totalShapes_eq_positions
#print axioms PV.Proofs.C03.energy_symm_like
#print axioms PV.Proofs.C03.circle_symm
#print axioms PV.Proofs.C03.le_nrm_of_sq_le
#print axioms PV.Proofs.C03.nrm_le_of_sq_le
#print axioms PV.Proofs.C03.far_pairs_vanish
#print axioms PV.Proofs.C03.box_exhausts_cutoff
