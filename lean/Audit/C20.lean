import Proofs.C20
import Proofs.TieBuild
import Proofs.TieLoopTail
import Proofs.TieBasis
import Proofs.SrcC20
#print axioms PV.Proofs.C20.build_inner_pos
#print axioms PV.Proofs.C20.build_ok
#print axioms PV.Proofs.C20.work_exact
#print axioms PV.Proofs.C20.work_upper
#print axioms PV.Proofs.C20.convergence_prefix
#print axioms PV.Proofs.C20.converged_needs_six
#print axioms PV.Proofs.C20.no_panic
#print axioms PV.Proofs.C20.panic_sites
#print axioms PV.Proofs.C20.declared_panic_sites
#print axioms PV.Proofs.Tie.declared_translated_build
#print axioms PV.Proofs.Tie.build_inner_tie
#print axioms PV.Proofs.Tie.build_kt_ratio_tie
#print axioms PV.Proofs.Tie.build_loops_tie
#print axioms PV.Proofs.Tie.declared_translated_looptail
#print axioms PV.Proofs.Tie.loop_tail_tie
#print axioms PV.Proofs.Tie.loop_tail_frame
#print axioms PV.Proofs.Tie.declared_translated_basis
#print axioms PV.Proofs.Tie.value_range_tie
#print axioms PV.Proofs.Tie.clamped_tie
#print axioms PV.Proofs.Tie.sample_tie
#print axioms PV.Proofs.Source.C20_source_inner_pos
