import Proofs.C08
import Proofs.C08Init
import Proofs.TieBasis
import Proofs.DeclBasis
import Proofs.TieAccept
import Proofs.SrcC08
#print axioms PV.Proofs.C08.declared_cell_bounds
#print axioms PV.Proofs.C08.declared_site_bounds
#print axioms PV.Proofs.C08.declared_initial_cell
#print axioms PV.Proofs.C08.clamp_in_range
#print axioms PV.Proofs.C08.C08_invariant
#print axioms PV.Proofs.C08.cellHandles_spec
#print axioms PV.Proofs.C08.siteHandles_spec
#print axioms PV.Proofs.C08.cellHandles_addrs
#print axioms PV.Proofs.C08.siteHandles_addrs
#print axioms PV.Proofs.C08.stateHandles_addrs
#print axioms PV.Proofs.C08.site_addrs_nodup
#print axioms PV.Proofs.C08.site_addrs_ge
#print axioms PV.Proofs.C08.cell_addrs_le
#print axioms PV.Proofs.C08.stateHandles_addrs_nodup
#print axioms PV.Proofs.C08.angle_unhandled_unless_monoclinic
#print axioms PV.Proofs.C08.C08_chained
#print axioms PV.Proofs.C08.C08_chained_angle
#print axioms PV.Proofs.C08.no_degenerate_cell
#print axioms PV.Proofs.C08Init.declared_initial_state
#print axioms PV.Proofs.C08Init.initial_copies_separated
#print axioms PV.Proofs.C08Init.site_pos_eval
#print axioms PV.Proofs.C08Init.site_angle_eval
#print axioms PV.Proofs.C08Init.init_rel
#print axioms PV.Proofs.C08Init.initPts_length
#print axioms PV.Proofs.C08Init.opsReal_length
#print axioms PV.Proofs.C08Init.init_rel_entry
#print axioms PV.Proofs.C08Init.init_sep
#print axioms PV.Proofs.C08Init.size_hard
#print axioms PV.Proofs.C08Init.size_lj
#print axioms PV.Proofs.C08Init.ratio_eval
#print axioms PV.Proofs.C08Init.angle_eval
#print axioms PV.Proofs.C08Init.hard_cell
#print axioms PV.Proofs.C08Init.tables_nonempty
#print axioms PV.Proofs.C08Init.opsRat_pos
#print axioms PV.Proofs.C08Init.table_ops_ok
#print axioms PV.Proofs.C08Init.init_placed
#print axioms PV.Proofs.C08Init.init_pair_clear
#print axioms PV.Proofs.C08Init.initial_cell
#print axioms PV.Proofs.C08Init.initial_shells
#print axioms PV.Proofs.C08Init.initial_check
#print axioms PV.Proofs.C08Init.initial_state_valid_hard
#print axioms PV.Proofs.C08Init.initial_state_scored_lj
#print axioms PV.Proofs.Tie.declared_translated_basis
#print axioms PV.Proofs.Tie.value_range_tie
#print axioms PV.Proofs.Tie.clamped_tie
#print axioms PV.Proofs.Tie.sample_tie
#print axioms PV.Proofs.DeclBasis.declared_rot_symmetry
#print axioms PV.Proofs.Tie.declared_translated_accept
#print axioms PV.Proofs.Tie.energy_surface_tie
#print axioms PV.Proofs.Tie.test_acceptance_tie
#print axioms PV.Proofs.Tie.accept_score_tie
#print axioms PV.Proofs.Source.C08_source_clamp_in_range
#print axioms PV.Proofs.Source.C08_source_proposal_in_range
#print axioms PV.Proofs.Source.C08_source_state_handles_clamp
#print axioms PV.Proofs.Source.C08_source_no_degenerate_cell
