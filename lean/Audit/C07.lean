import Proofs.C07
#print axioms PV.Proofs.C07.surface_worse
#print axioms PV.Proofs.C07.better_accepted
#print axioms PV.Proofs.C07.none_rejected
#print axioms PV.Proofs.C07.equal_accepted
#print axioms PV.Proofs.C07.worse_at_zero_rejected
#print axioms PV.Proofs.C07.worse_iff
#print axioms PV.Proofs.C07.nan_never_accepted
#print axioms PV.Proofs.C07.accepted_value
#print axioms PV.Proofs.C07.accept_measure
#print axioms PV.Proofs.C07.surface_range
#print axioms PV.Proofs.C07.applied_in_step
