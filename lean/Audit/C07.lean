import Proofs.C07
import Proofs.C07Draw
import Proofs.TieAccept
import Proofs.TieLoopTail
import Proofs.SrcC07
#print axioms PV.Proofs.C07.surface_worse
#print axioms PV.Proofs.C07.better_accepted
#print axioms PV.Proofs.C07.none_rejected
#print axioms PV.Proofs.C07.equal_accepted
#print axioms PV.Proofs.C07.worse_at_zero_rejected
#print axioms PV.Proofs.C07.worse_iff
#print axioms PV.Proofs.C07.nan_never_accepted
#print axioms PV.Proofs.C07.accepted_value
#print axioms PV.Proofs.C07.accept_measure
#print axioms PV.Proofs.C07.surface_range
#print axioms PV.Proofs.C07.applied_in_step
#print axioms PV.Proofs.C07Draw.unitQ_eq
#print axioms PV.Proofs.C07Draw.halfQ_eq
#print axioms PV.Proofs.C07Draw.unitQ_cast
#print axioms PV.Proofs.C07Draw.halfQ_cast
#print axioms PV.Proofs.C07Draw.card_filter_lt
#print axioms PV.Proofs.C07Draw.unitQ_range
#print axioms PV.Proofs.C07Draw.halfQ_range
#print axioms PV.Proofs.C07Draw.unit_lt_iff
#print axioms PV.Proofs.C07Draw.ceil_le_of_le_one
#print axioms PV.Proofs.C07Draw.unit_count
#print axioms PV.Proofs.C07Draw.unit_probability
#print axioms PV.Proofs.C07Draw.accept_probability
#print axioms PV.Proofs.C07Draw.zero_never
#print axioms PV.Proofs.C07Draw.one_always
#print axioms PV.Proofs.C07Draw.half_lt_iff
#print axioms PV.Proofs.C07Draw.half_count
#print axioms PV.Proofs.C07Draw.half_probability
#print axioms PV.Proofs.C07Draw.half_reflect
#print axioms PV.Proofs.C07Draw.mul_lt_iff_lt_ceilDiv
#print axioms PV.Proofs.C07Draw.index_count_gen
#print axioms PV.Proofs.C07Draw.index_count
#print axioms PV.Proofs.Tie.declared_translated_accept
#print axioms PV.Proofs.Tie.energy_surface_tie
#print axioms PV.Proofs.Tie.test_acceptance_tie
#print axioms PV.Proofs.Tie.accept_score_tie
#print axioms PV.Proofs.Tie.declared_translated_looptail
#print axioms PV.Proofs.Tie.loop_tail_tie
#print axioms PV.Proofs.Tie.loop_tail_frame
#print axioms PV.Proofs.Source.C07_source_better
#print axioms PV.Proofs.Source.C07_source_none
#print axioms PV.Proofs.Source.C07_source_worse_iff
#print axioms PV.Proofs.Source.C07_source_zero
