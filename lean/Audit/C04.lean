import Proofs.C04
#print axioms PV.Proofs.C04.stepChar_cast
#print axioms PV.Proofs.C04.runChars_cast
#print axioms PV.Proofs.C04.init_cast
#print axioms PV.Proofs.C04.parseRow_cast
#print axioms PV.Proofs.C04.parser_cast
#print axioms PV.Proofs.C04.opsReal_eq_cast
#print axioms PV.Proofs.C04.tables_facts
#print axioms PV.Proofs.C04.cast_int_of_den
#print axioms PV.Proofs.C04.compEquiv_cast
#print axioms PV.Proofs.C04.real_facts
#print axioms PV.Proofs.C04.table_commutes
#print axioms PV.Proofs.C04.table_commutes_cell
#print axioms PV.Proofs.C04.core
#print axioms PV.Proofs.C04.C04_symmetry
#print axioms PV.Proofs.C04.copies_eq_order
#print axioms PV.Proofs.C04.initial_cell_in_family
#print axioms PV.Proofs.C04.inFamily_depends_on_angle_only
