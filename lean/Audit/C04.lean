import Proofs.C04
import Proofs.TieWrap
import Proofs.TieSite
import Proofs.TieImages
import Proofs.SrcC04
#print axioms PV.Proofs.C04.stepChar_cast
#print axioms PV.Proofs.C04.runChars_cast
#print axioms PV.Proofs.C04.init_cast
#print axioms PV.Proofs.C04.parseRow_cast
#print axioms PV.Proofs.C04.parser_cast
#print axioms PV.Proofs.C04.opsReal_eq_cast
#print axioms PV.Proofs.C04.tables_facts
#print axioms PV.Proofs.C04.cast_int_of_den
#print axioms PV.Proofs.C04.compEquiv_cast
#print axioms PV.Proofs.C04.real_facts
#print axioms PV.Proofs.C04.table_commutes
#print axioms PV.Proofs.C04.table_commutes_cell
#print axioms PV.Proofs.C04.core
#print axioms PV.Proofs.C04.C04_symmetry
#print axioms PV.Proofs.C04.copies_eq_order
#print axioms PV.Proofs.C04.initial_cell_in_family
#print axioms PV.Proofs.C04.inFamily_depends_on_angle_only
#print axioms PV.Proofs.Tie.declared_translated_wrap
#print axioms PV.Proofs.Tie.periodic_position_tie
#print axioms PV.Proofs.Tie.declared_translated_site
#print axioms PV.Proofs.Tie.site_transform_tie
#print axioms PV.Proofs.Tie.site_multiplicity_tie
#print axioms PV.Proofs.Tie.site_positions_tie
#print axioms PV.Proofs.Tie.declared_translated_images
#print axioms PV.Proofs.Tie.to_cartesian_point_tie
#print axioms PV.Proofs.Tie.to_cartesian_isometry_tie
#print axioms PV.Proofs.Tie.to_cartesian_translate_tie
#print axioms PV.Proofs.Tie.periodic_images_tie
#print axioms PV.Proofs.Source.C04_source_symmetry
#print axioms PV.Proofs.Source.C04_source_copies_eq_order
#print axioms PV.Proofs.Source.C04_source_wrap_is_lattice_shift
#print axioms PV.Proofs.Source.C04_source_symmetry_images
