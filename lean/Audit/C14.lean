import Proofs.C14
import Proofs.TieCell
import Proofs.TieImages
import Proofs.SrcC14
#print axioms PV.Proofs.C14.toCart_linear
#print axioms PV.Proofs.C14.toCart_add
#print axioms PV.Proofs.C14.position_affine
#print axioms PV.Proofs.C14.isometry_keeps_linear
#print axioms PV.Proofs.C14.mem_shellRange
#print axioms PV.Proofs.C14.nodup_shellRange
#print axioms PV.Proofs.C14.length_shellRange
#print axioms PV.Proofs.C14.imageIndices_eq
#print axioms PV.Proofs.C14.mem_imageIndices
#print axioms PV.Proofs.C14.nodup_imageIndices
#print axioms PV.Proofs.C14.length_imageIndices
#print axioms PV.Proofs.C14.images_spec
#print axioms PV.Proofs.C14.images_are_translates
#print axioms PV.Proofs.C14.area_eq_cross
#print axioms PV.Proofs.C14.area_eq_abs_cross
#print axioms PV.Proofs.C14.corners_spec
#print axioms PV.Proofs.Tie.declared_translated_cell
#print axioms PV.Proofs.Tie.cell_a_tie
#print axioms PV.Proofs.Tie.cell_b_tie
#print axioms PV.Proofs.Tie.cell_angle_tie
#print axioms PV.Proofs.Tie.cell_area_tie
#print axioms PV.Proofs.Tie.cell_to_cartesian_tie
#print axioms PV.Proofs.Tie.declared_translated_images
#print axioms PV.Proofs.Tie.to_cartesian_point_tie
#print axioms PV.Proofs.Tie.to_cartesian_isometry_tie
#print axioms PV.Proofs.Tie.to_cartesian_translate_tie
#print axioms PV.Proofs.Tie.periodic_images_tie
#print axioms PV.Proofs.Source.C14_source_images
#print axioms PV.Proofs.Source.C14_source_area
