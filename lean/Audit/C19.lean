import Proofs.C19
import Proofs.C07Draw
import Proofs.TieBasis
import Proofs.DeclBasis
import Proofs.TieLoopTail
import Proofs.TieInnerStep
import Proofs.SrcC19
#print axioms PV.Proofs.C19.sample_bound
#print axioms PV.Proofs.C19.clamp_contracts
#print axioms PV.Proofs.C19.step_ratio_le_one
#print axioms PV.Proofs.C19.C19_bound
#print axioms PV.Proofs.C07Draw.unitQ_eq
#print axioms PV.Proofs.C07Draw.halfQ_eq
#print axioms PV.Proofs.C07Draw.unitQ_cast
#print axioms PV.Proofs.C07Draw.halfQ_cast
#print axioms PV.Proofs.C07Draw.card_filter_lt
#print axioms PV.Proofs.C07Draw.unitQ_range
#print axioms PV.Proofs.C07Draw.halfQ_range
#print axioms PV.Proofs.C07Draw.unit_lt_iff
#print axioms PV.Proofs.C07Draw.ceil_le_of_le_one
#print axioms PV.Proofs.C07Draw.unit_count
#print axioms PV.Proofs.C07Draw.unit_probability
#print axioms PV.Proofs.C07Draw.accept_probability
#print axioms PV.Proofs.C07Draw.zero_never
#print axioms PV.Proofs.C07Draw.one_always
#print axioms PV.Proofs.C07Draw.half_lt_iff
#print axioms PV.Proofs.C07Draw.half_count
#print axioms PV.Proofs.C07Draw.half_probability
#print axioms PV.Proofs.C07Draw.half_reflect
#print axioms PV.Proofs.C07Draw.mul_lt_iff_lt_ceilDiv
#print axioms PV.Proofs.C07Draw.index_count_gen
#print axioms PV.Proofs.C07Draw.index_count
#print axioms PV.Proofs.Tie.declared_translated_basis
#print axioms PV.Proofs.Tie.value_range_tie
#print axioms PV.Proofs.Tie.clamped_tie
#print axioms PV.Proofs.Tie.sample_tie
#print axioms PV.Proofs.DeclBasis.declared_rot_symmetry
#print axioms PV.Proofs.Tie.declared_translated_looptail
#print axioms PV.Proofs.Tie.loop_tail_tie
#print axioms PV.Proofs.Tie.loop_tail_frame
#print axioms PV.Proofs.Tie.declared_translated_innerstep
#print axioms PV.Proofs.Tie.inner_step_tie
#print axioms PV.Proofs.Source.C19_source_sample_bound
#print axioms PV.Proofs.Source.C19_source_clamp_contracts
