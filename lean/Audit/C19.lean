import Proofs.C19
#print axioms PV.Proofs.C19.sample_bound
#print axioms PV.Proofs.C19.clamp_contracts
#print axioms PV.Proofs.C19.step_ratio_le_one
#print axioms PV.Proofs.C19.C19_bound
