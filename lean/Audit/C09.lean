import Proofs.C09
import Proofs.TieCmp
#print axioms PV.Proofs.C09.declared_isolation
#print axioms PV.Proofs.C09.declared_reduction
#print axioms PV.Proofs.C09.seed_only
#print axioms PV.Proofs.C09.stages_seeded
#print axioms PV.Proofs.C09.sharedStep_eq
#print axioms PV.Proofs.C09.hget_congr
#print axioms PV.Proofs.C09.addrs_setOld
#print axioms PV.Proofs.C09.mem_addrs_of_get
#print axioms PV.Proofs.C09.sharedStep_frame
#print axioms PV.Proofs.C09.sharedStep_local
#print axioms PV.Proofs.C09.noninterference_gen
#print axioms PV.Proofs.C09.noninterference
#print axioms PV.Proofs.C09.cli_deterministic
#print axioms PV.Proofs.TieCmp.packed_partial_cmp_tie
#print axioms PV.Proofs.TieCmp.packed_cmp_tie
#print axioms PV.Proofs.TieCmp.potential_partial_cmp_tie
#print axioms PV.Proofs.TieCmp.potential_cmp_tie
#print axioms PV.Proofs.TieCmp.packed_eq_tie
#print axioms PV.Proofs.TieCmp.potential_eq_tie
#print axioms PV.Proofs.TieCmp.maxRight_eq_maxByCmp
#print axioms PV.Proofs.TieCmp.maxRight_packed
#print axioms PV.Proofs.TieCmp.maxRight_potential
