import Proofs.C16
import Proofs.TieParse
#print axioms PV.Proofs.C16.translator_recognised_everything
#print axioms PV.Proofs.C16.variants_are_the_seven
#print axioms PV.Proofs.C16.all_entries_ok
#print axioms PV.Proofs.C16.C16_tables_are_the_plane_groups
#print axioms PV.Proofs.C16.C16_all_strings_parse
#print axioms PV.Proofs.C16.C16_seven_groups
#print axioms PV.Proofs.TieParse.declared_translated_parse
#print axioms PV.Proofs.TieParse.trimMatches_braces
#print axioms PV.Proofs.TieParse.from_operations_tie
