import Proofs.C05
#print axioms PV.Proofs.C05.kt_stays_zero
#print axioms PV.Proofs.C05.zero_temp_accept
#print axioms PV.Proofs.C05.C05_monotone
#print axioms PV.Proofs.C05.C05_result_score
#print axioms PV.Proofs.C05.build_keeps_kt_start
#print axioms PV.Proofs.C05.not_positive_temperature_is_hill_climb
