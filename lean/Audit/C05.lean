import Proofs.C05
import Proofs.TieAccept
import Proofs.TieBuild
import Proofs.TieLoopTail
import Proofs.TieInnerStep
import Proofs.SrcC05
#print axioms PV.Proofs.C05.kt_stays_zero
#print axioms PV.Proofs.C05.zero_temp_accept
#print axioms PV.Proofs.C05.C05_monotone
#print axioms PV.Proofs.C05.C05_result_score
#print axioms PV.Proofs.C05.build_keeps_kt_start
#print axioms PV.Proofs.C05.not_positive_temperature_is_hill_climb
#print axioms PV.Proofs.Tie.declared_translated_accept
#print axioms PV.Proofs.Tie.energy_surface_tie
#print axioms PV.Proofs.Tie.test_acceptance_tie
#print axioms PV.Proofs.Tie.accept_score_tie
#print axioms PV.Proofs.Tie.declared_translated_build
#print axioms PV.Proofs.Tie.build_inner_tie
#print axioms PV.Proofs.Tie.build_kt_ratio_tie
#print axioms PV.Proofs.Tie.build_loops_tie
#print axioms PV.Proofs.Tie.declared_translated_looptail
#print axioms PV.Proofs.Tie.loop_tail_tie
#print axioms PV.Proofs.Tie.loop_tail_frame
#print axioms PV.Proofs.Tie.declared_translated_innerstep
#print axioms PV.Proofs.Tie.inner_step_tie
#print axioms PV.Proofs.Source.C05_source_zero_temp_accept
