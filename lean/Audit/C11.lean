import Proofs.C11
#print axioms PV.Proofs.C11.declared_schema
#print axioms PV.Proofs.C11.mapM_map_some
#print axioms PV.Proofs.C11.decMat_encMat
#print axioms PV.Proofs.C11.decFamily_encFamily
#print axioms PV.Proofs.C11.decCell_encCell
#print axioms PV.Proofs.C11.decSite_encSite
#print axioms PV.Proofs.C11.decLine_enc
#print axioms PV.Proofs.C11.decAtom_enc
#print axioms PV.Proofs.C11.decLJ_enc
#print axioms PV.Proofs.C11.decShape_encShape
#print axioms PV.Proofs.C11.decode_encode
#print axioms PV.Proofs.C11.reencode_same
#print axioms PV.Proofs.C11.svg_matrix_semantics
#print axioms PV.Proofs.C11.length_images
#print axioms PV.Proofs.C11.svg_uses_spec
#print axioms PV.Proofs.C11.svg_images_are_translates
