import Proofs.C06
import Proofs.TieBasis
import Proofs.TieInnerStep
import Proofs.SrcC06
#print axioms PV.Proofs.C06.reset_set_eq
#print axioms PV.Proofs.C06.set_differs
#print axioms PV.Proofs.C06.acceptScore_some
#print axioms PV.Proofs.C06.step_cases
#print axioms PV.Proofs.C06.step_effect
#print axioms PV.Proofs.C06.runInner_inv
#print axioms PV.Proofs.C06.afterLoop_heap_cur
#print axioms PV.Proofs.C06.runOuter_inv
#print axioms PV.Proofs.C06.optimise_inv
#print axioms PV.Proofs.C06.lastAfter_nil
#print axioms PV.Proofs.C06.lastAfter_snoc
#print axioms PV.Proofs.C06.lastAfter_cons
#print axioms PV.Proofs.C06.chained_snoc
#print axioms PV.Proofs.C06.lastAccepted_snoc
#print axioms PV.Proofs.C06.lastAcceptedScore_snoc
#print axioms PV.Proofs.C06.inv_init
#print axioms PV.Proofs.C06.inv_step
#print axioms PV.Proofs.C06.inv_run
#print axioms PV.Proofs.C06.C06_every_step
#print axioms PV.Proofs.C06.C06_result
#print axioms PV.Proofs.C06.C06_tracked_score_is_score_of_result
#print axioms PV.Proofs.C06.reset_after_set
#print axioms PV.Proofs.Tie.declared_translated_basis
#print axioms PV.Proofs.Tie.value_range_tie
#print axioms PV.Proofs.Tie.clamped_tie
#print axioms PV.Proofs.Tie.sample_tie
#print axioms PV.Proofs.Tie.declared_translated_innerstep
#print axioms PV.Proofs.Tie.inner_step_tie
#print axioms PV.Proofs.Source.C06_source_reset_after_set
#print axioms PV.Proofs.Source.C06_source_proposal_differs
#print axioms PV.Proofs.Source.C06_source_step_keeps_or_restores
#print axioms PV.Proofs.Source.C06_source_step_touches_one_cell
