#!/usr/bin/env python3
"""coverage.py — inventory of the crate's non-test functions against the model: which are regenerated
from the source by rs2lean (and tied by a theorem), which are data-translated by pvtx, which are
hand-modelled and tied by the differential correspondence only, which are outside the model.
Writes /verif/COVERAGE.md (documentation; the obligations themselves are the Tie* theorems)."""
import glob
import os
import re
import sys

VERIF = os.path.dirname(os.path.dirname(os.path.abspath(__file__)))
REPO = sys.argv[1] if len(sys.argv) > 1 else '/repo'

HAND = {  # (file suffix, fn) -> how it is covered although not regenerated
    ('basis.rs', 'get_value'): 'hand model (heap of cells), `basis` / `opt` families bit-exact',
    ('basis.rs', 'set_value'): 'clamp regenerated (FnsBasis.basis_clamped); cell write hand-modelled',
    ('basis.rs', 'reset_value'): 'hand model, `basis` family; inner step regenerated (FnsInnerStep)',
    ('basis.rs', 'set_sampled'): 'hand model over regenerated `sample` + clamp',
    ('basis.rs', 'new'): 'hand model (Handle / heap cell)',
    ('basis.rs', 'serialize'): 'Model/Json.lean, `json` family + C11 round-trip oracle',
    ('basis.rs', 'deserialize'): 'Model/Json.lean, `json` family + C11 round-trip oracle',
    ('cell.rs', 'get_degrees_of_freedom'): 'data-translated by pvtx (Generated/Bounds.lean: handles, limits per family)',
    ('cell.rs', 'from_family'): 'data-translated by pvtx (Generated/State.lean: initial cell per family)',
    ('cell.rs', 'center'): 'Model/Svg.lean, `svg` family',
    ('cell.rs', 'get_corners'): 'Model/Svg.lean, `svg` family',
    ('site.rs', 'from_wyckoff'): 'hand model (Site), `site fromwyckoff` family',
    ('site.rs', 'get_basis'): 'data-translated by pvtx (Generated/Bounds.lean)',
    ('site.rs', 'clone'): 'hand model (fresh heap cells), C09 pool oracle',
    ('optimisation.rs', 'optimise_state'): 'inner step and loop tail regenerated (FnsInnerStep, FnsLoopTail); loop skeleton hand-modelled, `opt*` families bit-exact',
    ('optimisation.rs', 'build'): 'schedule arithmetic regenerated (FnsBuild); seed choice hand-modelled',
    ('optimisation.rs', 'default'): 'data-translated by pvtx (Generated/Cli.lean: defaults)',
    ('packed.rs', 'generate_basis'): 'data-translated by pvtx (Generated/Bounds.lean)',
    ('potential.rs', 'generate_basis'): 'data-translated by pvtx (Generated/Bounds.lean)',
    ('packed.rs', 'initialise'): 'data-translated by pvtx (Generated/State.lean: initial size expression) + hand model Crystal.fromGroup',
    ('potential.rs', 'initialise'): 'data-translated by pvtx (Generated/State.lean) + hand model Crystal.fromGroup',
    ('packed.rs', 'from_group'): 'hand model Crystal.fromGroup, `state` / `cli` families',
    ('potential.rs', 'from_group'): 'hand model Crystal.fromGroup, `state` / `cli` families',
    ('packed.rs', 'as_positions'): 'outside the model (text dump, unused by the CLI)',
    ('potential.rs', 'as_positions'): 'outside the model (text dump, unused by the CLI)',
    ('main.rs', 'analyse_state'): 'stage overrides data-translated by pvtx (Generated/Cli.lean); pipeline hand-modelled (Model/Cli.lean), `cli` family against the real binary',
    ('main.rs', 'main'): 'argument handling: Generated/Cli.lean (schema, defaults) + `cli` family against the real binary',
    ('wallpaper.rs', 'get_wallpaper_group'): 'data-translated by pvtx (Generated/Tables.lean: the seven tables, parsed by the regenerated parser)',
    ('wallpaper.rs', 'new'): 'hand model (parse every string, in order: pinned by pvtx)',
    ('wallpaper.rs', 'multiplicity'): 'regenerated as site_multiplicity',
    ('wallpaper.rs', 'degrees_of_freedom'): 'data-translated by pvtx (Generated/Bounds.lean)',
    ('cell.rs', 'clone'): 'hand model (fresh heap cells), C09 pool oracle',
    ('cell.rs', 'default'): 'data-translated by pvtx (Generated/State.lean)',
    ('optimisation.rs', 'kt_start'): 'builder setter: Model/Cli.lean Ovr.apply, `cli` / `optc` families',
    ('optimisation.rs', 'kt_finish'): 'builder setter: Model/Cli.lean Ovr.apply',
    ('optimisation.rs', 'kt_ratio'): 'builder setter: Model/Cli.lean Ovr.apply',
    ('optimisation.rs', 'max_step_size'): 'builder setter: Model/Cli.lean Ovr.apply',
    ('optimisation.rs', 'steps'): 'builder setter: Model/Cli.lean Ovr.apply',
    ('optimisation.rs', 'inner_steps'): 'builder setter: Model/Cli.lean Ovr.apply',
    ('optimisation.rs', 'seed'): 'builder setter: Model/Cli.lean Ovr.apply',
    ('optimisation.rs', 'convergence'): 'builder setter: Model/Cli.lean Ovr.apply',
    ('line2.rs', 'area'): 'constant 0 (a segment has no area); LineShape::area is regenerated',
    ('line_shape.rs', 'score'): 'outside the model (not called by the states)',
    ('lj_shape.rs', 'score'): 'outside the model (not called by the states)',
    ('molecular_shape2.rs', 'score'): 'outside the model (not called by the states)',
    ('traits.rs', 'rotational_symmetries'): 'data-translated by pvtx (generateBasisRotSym: declared_rot_symmetry)',
    ('transform.rs', 'new'): 'hand model Mat3.new, `mat` family bit-exact',
    ('transform.rs', 'identity'): 'hand model Mat3.identity',
    ('transform.rs', 'position'): 'hand model Mat3.position (used by the regenerated functions)',
    ('transform.rs', 'get_translation'): 'hand model',
    ('transform.rs', 'set_position'): 'hand model Mat3.setPosition',
    ('transform.rs', 'from'): 'identity on the matrix',
    ('transform.rs', 'into'): 'identity on the matrix',
}


def fns(path):
    s = open(path, encoding='utf-8').read()
    out = []
    depth_test = None
    # strip test modules: from `#[cfg(test)]` + `mod … {` to the matching brace; and `#[cfg(test)] impl`
    res = []
    i = 0
    while True:
        m = re.search(r'#\[cfg\(test\)\]\s*(?:mod\s+\w+|impl[^{]*)\s*\{', s[i:])
        if not m:
            res.append(s[i:])
            break
        res.append(s[i:i + m.start()])
        k = i + m.end()
        d = 1
        while k < len(s) and d:
            d += {'{': 1, '}': -1}.get(s[k], 0)
            k += 1
        i = k
    s = ''.join(res)
    for m in re.finditer(r'^\s*(?:pub(?:\([a-z]+\))?\s+)?(?:const\s+)?fn\s+([a-z_0-9]+)\s*(?:<[^>]*>)?\s*\(', s, re.M):
        # skip trait method declarations (end in `;`)
        j = s.find('{', m.end())
        k = s.find(';', m.end())
        if k != -1 and (j == -1 or k < j):
            continue
        out.append(m.group(1))
    return out


def main():
    gen = {}
    for f in sorted(glob.glob(os.path.join(VERIF, 'lean', 'Generated', 'Fns*.lean'))):
        txt = open(f, encoding='utf-8').read()
        for m in re.finditer(r'/-- `(\w+)` \(([^)]*)\) -/\s*\n(?:noncomputable )?def (\w+)', txt):
            for rel in re.findall(r'src/[\w/{},*]+\.rs', m.group(2)) or [m.group(2)]:
                gen.setdefault((os.path.basename(rel), m.group(1)), []).append((os.path.basename(f)[:-5], m.group(3)))
        # op_body entries come from the ops files
    rows = []
    total = done = 0
    for path in sorted(glob.glob(os.path.join(REPO, 'src', '**', '*.rs'), recursive=True)):
        rel = os.path.relpath(path, REPO)
        base = os.path.basename(path)
        names = fns(path)
        if base.endswith('_ops.rs'):
            names = ['op_body (Mul impls)']
        for n in names:
            total += 1
            key = (base, n.split(' ')[0])
            if key in gen:
                done += 1
                rows.append((rel, n, 'regenerated', ', '.join('%s.%s' % g for g in gen[key])))
            elif n in ('fmt', 'expecting', 'visit_f32', 'visit_f64', 'into_iter', 'iter', 'get_items') or base == 'to_svg.rs':
                kind = 'Model/Svg.lean + `svg` family and C11 SVG oracle' if base == 'to_svg.rs' else 'outside the model (formatting / iteration plumbing)'
                rows.append((rel, n, 'hand / none', kind))
            elif key in HAND:
                rows.append((rel, n, 'hand / data', HAND[key]))
            else:
                rows.append((rel, n, 'hand / none', 'not classified'))
    L = ['# Coverage of the crate by the model', '',
         'Generated by `tools/coverage.py` from /repo and lean/Generated/Fns*.lean.  *regenerated* = the body is',
         're-translated from the source on every run (tools/rs2lean.py) and tied to the hand model by a theorem of',
         'Proofs/Tie*.lean; *hand / data* = constants and tables are re-extracted by tools/pvtx.py, the control flow',
         'is hand-modelled and tied by the bit-exact differential correspondence; *hand / none* = as stated.', '',
         '%d of %d non-test functions are regenerated from their source.' % (done, total), '',
         '| file | function | status | where |', '|---|---|---|---|']
    for r in rows:
        L.append('| %s | `%s` | %s | %s |' % r)
    open(os.path.join(VERIF, 'COVERAGE.md'), 'w').write('\n'.join(L) + '\n')
    print('%d of %d functions regenerated; %d not classified' % (done, total, sum(1 for r in rows if r[3] == 'not classified')))
    for r in rows:
        if r[3] == 'not classified':
            print('  ', r[0], r[1])


if __name__ == '__main__':
    main()
