#!/usr/bin/env python3
"""Regenerate MANIFEST.json from tools/props.py (run after claiming / un-claiming a property)."""
import json
import os
import sys

sys.path.insert(0, os.path.dirname(os.path.abspath(__file__)))
import props  # noqa: E402

VERIF = os.path.dirname(os.path.dirname(os.path.abspath(__file__)))
ALL = ['C%02d' % i for i in range(1, 21)]

checks = []
for pid in ALL:
    P = props.PROPS.get(pid)
    if not P or not P.get('claimed', True):
        continue
    checks.append({
        'property_id': pid,
        'quick_cmd': './check %s --tier quick' % pid,
        'thorough_cmd': './check %s --tier thorough' % pid,
        'evidence_file': 'evidence/%s.json' % pid,
        'replay_cmd_template': './check %s --replay {path}' % pid,
        'engine': 'lean4-proof',
        'level_claimed': {
            'category': 'proof',
            'text': P['level_text'],
            'design_ref': 'DESIGN.md §5 ' + pid,
        },
        'level_note': P['level_note'],
        'technique': P.get('technique', 'Lean 4 theorems over a model tied to the source by translator + differential correspondence'),
    })

na = []
for pid in ALL:
    P = props.PROPS.get(pid)
    if P and P.get('claimed', True):
        continue
    na.append({'property_id': pid, 'reason': props.NOT_CLAIMED.get(pid, 'not claimed yet: model and theorems for this property are still being built (DESIGN.md §8 order of work)')})

manifest = {
    'version': 1,
    'setup_cmd': './check --setup',
    'hooks': {
        'guard': 'packing_verif',
        'enable': 'no source hooks are needed: every observation point is reachable through the public API (recording State in the harness, serde injection, the real binary)',
        'baseline_off_cmd': 'cd /repo && cargo test --workspace --no-fail-fast --offline',
        'source_commits': props.SOURCE_COMMITS,
        'add_only': True,
    },
    'engines': [{
        'name': 'lean4-proof',
        'path': 'check',
        'serves_properties': [c['property_id'] for c in checks],
        'kind_free_text': 'Lean 4 theorems (lean/Proofs) about an executable scalar-polymorphic model (lean/Model); model tied to /repo on every run by a source translator (tools/pvtx.py -> lean/Generated) and a differential correspondence harness (harness/pvh vs compiled lean driver); failing-input search by spec oracles on the real crate',
    }],
    'checks': checks,
    'notes': 'See DESIGN.md. known_findings.json lists genuine defects (known / fixed).',
    'not_applicable': na,
}
with open(os.path.join(VERIF, 'MANIFEST.json'), 'w') as f:
    json.dump(manifest, f, indent=1)
    f.write('\n')
print('MANIFEST.json: %d checks, %d not claimed' % (len(checks), len(na)))
