#!/usr/bin/env python3
"""pvtx — translator: regenerates lean/Generated/*.lean from /repo's current source text.

The data-like parts of the model (group tables, bounds and constants, optimiser defaults and
CLI stage overrides, serde schema, Clone bodies, shared-state and panic inventories) are *not*
typed into the Lean model by hand: they are extracted here, from the source as it is now, on
every run.  Theorems over `Generated.*` are therefore re-checked against what the code says.

Anything that does not match the expected shape is emitted as an `unrecognised` marker and
makes the corresponding `…WellFormed` constant `false`, which breaks a proof obligation
instead of being silently ignored.

Usage: pvtx.py <repo> <outdir>      (files are rewritten only when their content changes)
"""
import os
import re
import sys


# ----------------------------------------------------------------------------- lexing helpers

def strip_comments(src: str) -> str:
    """Remove // and /* */ comments, keeping string/char literals intact."""
    out = []
    i, n = 0, len(src)
    while i < n:
        c = src[i]
        if c == '"':
            j = i + 1
            while j < n and src[j] != '"':
                j += 2 if src[j] == '\\' else 1
            out.append(src[i:j + 1])
            i = j + 1
        elif c == "'" and i + 2 < n and (src[i + 2] == "'" or (src[i + 1] == '\\' and "'" in src[i + 2:i + 6])):
            j = src.index("'", i + 2 if src[i + 1] != '\\' else i + 3)
            out.append(src[i:j + 1])
            i = j + 1
        elif src.startswith('//', i):
            j = src.find('\n', i)
            i = n if j < 0 else j
        elif src.startswith('/*', i):
            j = src.find('*/', i)
            i = n if j < 0 else j + 2
        else:
            out.append(c)
            i += 1
    return ''.join(out)


def strip_tests(src: str) -> str:
    """Drop `#[cfg(test)] mod … { … }` blocks (test-only code is outside every property)."""
    while True:
        m = re.search(r'#\[cfg\(test\)\]\s*mod\s+\w+\s*\{', src)
        if not m:
            return src
        end = match_brace(src, m.end() - 1)
        src = src[:m.start()] + src[end + 1:]


def match_brace(src: str, i: int) -> int:
    """Index of the bracket closing the one at src[i] (handles (), [], {} and string literals)."""
    pairs = {'(': ')', '[': ']', '{': '}'}
    assert src[i] in pairs, src[i:i + 20]
    stack = [pairs[src[i]]]
    j = i + 1
    n = len(src)
    while j < n and stack:
        c = src[j]
        if c == '"':
            j += 1
            while j < n and src[j] != '"':
                j += 2 if src[j] == '\\' else 1
        elif c == "'" and j + 2 < n and src[j + 2] == "'":
            j += 2
        elif c in pairs:
            stack.append(pairs[c])
        elif c in ')]}':
            if c != stack[-1]:
                raise ValueError('unbalanced at %d' % j)
            stack.pop()
        j += 1
    return j - 1


def fn_body(src: str, name: str, after: int = 0):
    """Text between the braces of `fn name…{ … }` (first occurrence after `after`)."""
    m = re.compile(r'\bfn\s+' + re.escape(name) + r'\b').search(src, after)
    if not m:
        return None
    i = src.index('{', m.end())
    # skip a where-clause-free signature: the first '{' at paren depth 0
    depth = 0
    k = m.end()
    while k < len(src):
        if src[k] in '(<[':
            depth += 1
        elif src[k] in ')>]':
            # `->` contains '>' : do not count it
            if not (src[k] == '>' and src[k - 1] == '-'):
                depth -= 1
        elif src[k] == '{' and depth <= 0:
            i = k
            break
        k += 1
    j = match_brace(src, i)
    return src[i + 1:j]


def read(repo, rel):
    with open(os.path.join(repo, rel), encoding='utf-8') as f:
        return strip_tests(strip_comments(f.read()))


def lean_chars(s: str) -> str:
    def one(c):
        if c == "'":
            return "'\\''"
        if c == '\\':
            return "'\\\\'"
        if c == '\n':
            return "'\\n'"
        if c == '\t':
            return "'\\t'"
        if ord(c) < 32 or ord(c) > 126:
            return "(Char.ofNat %d)" % ord(c)
        return "'%s'" % c
    return '[' + ', '.join(one(c) for c in s) + ']'


def ws(x):
    """text with all whitespace removed and without the trailing commas rustfmt adds or removes
    (`a,}` / `a,)` / `a,]`): what textual comparisons are made on"""
    x = re.sub(r'[ \t\r\n]+', '', x or '')
    return re.sub(r',([}\])])', r'\1', x)


def lean_str(s: str) -> str:
    return '"' + s.replace('\\', '\\\\').replace('"', '\\"').replace('\n', '\\n') + '"'


def rust_unescape(s: str) -> str:
    return bytes(s, 'utf-8').decode('unicode_escape') if '\\' in s else s


# ----------------------------------------------------------------------------- T1: tables

def gen_tables(repo):
    src = read(repo, 'src/wallpaper.rs')
    notes = []
    variants = []
    m = re.search(r'pub\s+enum\s+WallpaperGroups\s*\{([^}]*)\}', src)
    if m:
        variants = [v.strip() for v in m.group(1).split(',') if v.strip()]
    else:
        notes.append('enum WallpaperGroups not found')
    body = fn_body(src, 'get_wallpaper_group')
    entries = []
    if body is None:
        notes.append('fn get_wallpaper_group not found')
        body = ''
    arm = re.compile(
        r'WallpaperGroups::(\w+)\s*=>\s*(?:\{\s*)?Ok\(\s*WallpaperGroup\s*\{\s*'
        r'name:\s*"((?:[^"\\]|\\.)*)"\s*,\s*'
        r'family:\s*CrystalFamily::(\w+)\s*,\s*'
        r'wyckoff_str:\s*vec!\[((?:\s*"(?:[^"\\]|\\.)*"\s*,?)*)\]\s*,?\s*\}\s*\)\s*(?:\}\s*)?,?')
    pos = 0
    for mm in arm.finditer(body):
        ops = [rust_unescape(x) for x in re.findall(r'"((?:[^"\\]|\\.)*)"', mm.group(4))]
        entries.append((mm.group(1), rust_unescape(mm.group(2)), mm.group(3), ops))
    n_arrows = len(re.findall(r'=>', body))
    if n_arrows != len(entries):
        notes.append('get_wallpaper_group: %d match arms, %d recognised' % (n_arrows, len(entries)))
    # the function must be exactly `match name { arms }`
    rest = arm.sub('', body)
    if ws(rest) != 'matchname{}':
        notes.append('get_wallpaper_group: unrecognised residue: ' + re.sub(r'\s+', ' ', rest)[:120])
    fams = {'Monoclinic', 'Orthorhombic', 'Hexagonal', 'Tetragonal'}
    for e in entries:
        if e[2] not in fams:
            notes.append('unknown family ' + e[2])
    entries = [e for e in entries if e[2] in fams]

    # Wallpaper::new must copy name and family from the group
    wnew = fn_body(src, 'new')
    ok_new = wnew is not None and ws(wnew) == \
        'Wallpaper{name:String::from(group.name),family:group.family}'
    if not ok_new:
        notes.append('Wallpaper::new: unrecognised body')

    # WyckoffSite::new parses every string with Transform2::from_operations, in order
    m2 = re.search(r'impl\s+WyckoffSite\s*\{', src)
    wy = fn_body(src, 'new', m2.end()) if m2 else None
    wy_ok = wy is not None and ws(wy).startswith(
        'letsymmetries=group.wyckoff_str.iter().map(|&a|Transform2::from_operations(a))'
        '.collect::<Result<Vec<_>,_>>()?;Ok(WyckoffSite{letter:\'a\',symmetries,')
    if not wy_ok:
        notes.append('WyckoffSite::new: unrecognised body')

    # degrees_of_freedom of the general site
    dof = fn_body(src, 'degrees_of_freedom')
    dof_list = None
    if dof is not None:
        md = re.fullmatch(r'&\[(.*)\]', ws(dof))
        if md:
            dof_list = [x == 'true' for x in md.group(1).split(',') if x]
    if dof_list is None:
        notes.append('WyckoffSite::degrees_of_freedom: unrecognised body')
        dof_list = []

    L = []
    L.append('/- GENERATED by tools/pvtx.py from src/wallpaper.rs — do not edit. -/')
    L.append('import Model.Family')
    L.append('namespace PV.Generated')
    L.append('')
    L.append('/-- the variants of `arg_enum! WallpaperGroups` (what the CLI accepts), in order -/')
    L.append('def cliVariants : List (List Char) := [' + ', '.join(lean_chars(v) for v in variants) + ']')
    L.append('')
    L.append('/-- one entry per arm of `get_wallpaper_group`, in source order -/')
    L.append('def tables : List TableEntry := [')
    rows = []
    for (v, name, fam, ops) in entries:
        rows.append('  { variant := %s, name := %s, family := .%s,\n    ops := [%s] }' % (
            lean_chars(v), lean_chars(name), fam, ', '.join(lean_chars(o) for o in ops)))
    L.append(',\n'.join(rows))
    L.append(']')
    L.append('')
    L.append('/-- `WyckoffSite::degrees_of_freedom` (x, y, angle) -/')
    L.append('def siteDof : List Bool := [' + ', '.join('true' if b else 'false' for b in dof_list) + ']')
    L.append('')
    L.append('/-- `Wallpaper::new` copies `name` and `family` from the table entry -/')
    L.append('def wallpaperNewCopies : Bool := ' + ('true' if ok_new else 'false'))
    L.append('/-- `WyckoffSite::new` maps `Transform2::from_operations` over the strings, in order -/')
    L.append('def wyckoffNewParsesAll : Bool := ' + ('true' if wy_ok else 'false'))
    L.append('')
    L.append('/-- constructs of `wallpaper.rs` the translator did not recognise (must be empty) -/')
    L.append('def tablesUnrecognised : List String := [' + ', '.join(lean_str(x) for x in notes) + ']')
    L.append('')
    L.append('end PV.Generated')
    return '\n'.join(L) + '\n'


# ----------------------------------------------------------------------------- expressions

class Unrecognised(Exception):
    pass


TOKEN_RE = re.compile(r'\s*(?:(\d+\.\d*(?:[eE][+-]?\d+)?|\d+[eE][+-]?\d+|\.\d+(?:[eE][+-]?\d+)?|\d+)|([A-Za-z_][\w:\.]*(?:\(\))?)|(.))')


def parse_decimal(tok: str):
    """decimal literal -> reduced (num, den)"""
    from fractions import Fraction
    t = tok.rstrip('.') if tok.endswith('.') else tok
    if t.endswith('_f64'):
        t = t[:-4]
    fr = Fraction(t)
    return fr.numerator, fr.denominator


class ExprParser:
    """Rust float expression -> Lean BExpr term.  Grammar: + - * / unary-, parentheses, decimal
    literals, PI, `<path>.get_value()`, `<ident> as f64`, method calls a()/b()/angle() on
    self.cell, `.sin()`/`.cos()` are NOT accepted here (structural code is modelled by hand)."""

    VAR_MAP = [
        (re.compile(r'^(?:std::f64::consts::|f64::consts::)?PI$'), None),
        (re.compile(r'^self\.(\w+)\.get_value\(\)$'), r'\1'),
        (re.compile(r'^(\w+)$'), r'\1'),
        (re.compile(r'^wyckoff\.multiplicity\(\)$'), 'multiplicity'),
        (re.compile(r'^shape\.enclosing_radius\(\)$'), 'enclosing_radius'),
        (re.compile(r'^self\.shape\.enclosing_radius\(\)$'), 'enclosing_radius'),
    ]

    def __init__(self, text):
        self.toks = []
        text = re.sub(r'\bas\s+f64\b', '', text)
        pos = 0
        while pos < len(text):
            m = TOKEN_RE.match(text, pos)
            if not m or m.end() == pos:
                break
            pos = m.end()
            if m.group(1) is not None:
                self.toks.append(('num', m.group(1)))
            elif m.group(2) is not None:
                self.toks.append(('id', m.group(2)))
            elif m.group(3) is not None and m.group(3).strip():
                self.toks.append(('op', m.group(3)))
        self.i = 0

    def peek(self):
        return self.toks[self.i] if self.i < len(self.toks) else (None, None)

    def take(self):
        t = self.peek()
        self.i += 1
        return t

    def parse(self):
        e = self.expr()
        if self.i != len(self.toks):
            raise Unrecognised('trailing tokens in expression: %r' % (self.toks[self.i:],))
        return e

    def expr(self):
        e = self.term()
        while self.peek() in (('op', '+'), ('op', '-')):
            op = self.take()[1]
            r = self.term()
            e = '(.%s %s %s)' % ('add' if op == '+' else 'sub', e, r)
        return e

    def term(self):
        e = self.unary()
        while self.peek() in (('op', '*'), ('op', '/')):
            op = self.take()[1]
            r = self.unary()
            e = '(.%s %s %s)' % ('mul' if op == '*' else 'div', e, r)
        return e

    def unary(self):
        if self.peek() == ('op', '-'):
            self.take()
            return '(.neg %s)' % self.unary()
        return self.atom()

    def atom(self):
        k, v = self.take()
        if k == 'num':
            n, d = parse_decimal(v)
            return '(.lit %d %d)' % (n, d)
        if k == 'op' and v == '(':
            e = self.expr()
            if self.take() != ('op', ')'):
                raise Unrecognised('missing )')
            return e
        if k == 'id':
            # the token regex keeps `name()` together; method chains arrive as one id
            # possibly followed by "(" ")" tokens when arguments are empty
            if re.match(r'^(?:std::f64::consts::|f64::consts::)?PI$', v):
                return '.pi'
            m = re.match(r'^self\.(\w+)\.get_value\(\)$', v)
            if m:
                return '(.var "%s")' % m.group(1)
            m = re.match(r'^(?:self\.)?(?:shape\.)?enclosing_radius\(\)$', v)
            if m or v in ('shape.enclosing_radius()', 'self.shape.enclosing_radius()'):
                return '(.var "enclosing_radius")'
            if v == 'wyckoff.multiplicity()':
                return '(.var "multiplicity")'
            if re.match(r'^[a-z_]\w*$', v):
                return '(.var "%s")' % v
        raise Unrecognised('unrecognised atom %r' % (v,))


def to_bexpr(text):
    return ExprParser(text).parse()


def split_args(text):
    """split a comma-separated argument list at depth 0"""
    out, depth, cur = [], 0, ''
    for c in text:
        if c in '([{':
            depth += 1
        elif c in ')]}':
            depth -= 1
        if c == ',' and depth == 0:
            out.append(cur)
            cur = ''
        else:
            cur += c
    if cur.strip():
        out.append(cur)
    return [a.strip() for a in out]


PARAM_OF_FIELD = {'length': 'length', 'ratio': 'ratio', 'angle': 'angle', 'x': 'x', 'y': 'y'}


def basis_pushes(text, notes, where, angle_is='angle'):
    """all `basis.push(StandardBasis::new(&self.f, min, max))` in text, in order"""
    out = []
    for m in re.finditer(r'basis\s*\.\s*push\s*\(\s*StandardBasis::new\s*\(', text):
        j = match_brace(text, m.end() - 1)
        args = split_args(text[m.end():j])
        if len(args) != 3 or not re.match(r'^&self\.(\w+)$', args[0]):
            notes.append('%s: unrecognised StandardBasis::new(%s)' % (where, ', '.join(args)))
            continue
        field = re.match(r'^&self\.(\w+)$', args[0]).group(1)
        param = PARAM_OF_FIELD.get(field)
        if field == 'angle':
            param = angle_is
        if param is None:
            notes.append('%s: unknown field %s' % (where, field))
            continue
        try:
            out.append((param, to_bexpr(args[1]), to_bexpr(args[2])))
        except Unrecognised as e:
            notes.append('%s: %s' % (where, e))
    n_push = len(re.findall(r'\.\s*push\s*\(', text))
    if n_push != len(out):
        notes.append('%s: %d push calls, %d recognised' % (where, n_push, len(out)))
    return out


def lean_dofs(dofs):
    return '[' + ', '.join('⟨.%s, %s, %s⟩' % d for d in dofs) + ']'


FAMILIES = ['Monoclinic', 'Orthorhombic', 'Hexagonal', 'Tetragonal']


def match_arms(body):
    """[(pattern, arm text)] of the first `match … { … }` in body"""
    m = re.search(r'\bmatch\b[^{]*\{', body)
    if not m:
        return None, None, None
    j = match_brace(body, m.end() - 1)
    inner = body[m.end():j]
    arms = []
    i = 0
    while i < len(inner):
        mm = re.compile(r'\s*([^=]+?)\s*=>\s*').match(inner, i)
        if not mm:
            break
        k = mm.end()
        if k < len(inner) and inner[k] == '{':
            e = match_brace(inner, k)
            arms.append((mm.group(1).strip(), inner[k + 1:e]))
            i = e + 1
        else:
            e = k
            depth = 0
            while e < len(inner) and not (inner[e] == ',' and depth == 0):
                if inner[e] in '([{':
                    depth += 1
                elif inner[e] in ')]}':
                    depth -= 1
                e += 1
            arms.append((mm.group(1).strip(), inner[k:e]))
            i = e
        while i < len(inner) and inner[i] in ', \n\t':
            i += 1
    return body[:m.start()], arms, body[j + 1:]


# ----------------------------------------------------------------------------- T2: bounds

def gen_bounds(repo):
    notes = []
    notes_wrap = []
    cell = read(repo, 'src/cell.rs')
    site = read(repo, 'src/site.rs')
    L = ['/- GENERATED by tools/pvtx.py from src/cell.rs, src/site.rs, src/state/*.rs — do not edit. -/',
         'import Model.Expr', 'namespace PV.Generated', '']

    # --- Cell2::get_degrees_of_freedom
    body = fn_body(cell, 'get_degrees_of_freedom') or ''
    pre, arms, post = match_arms(body)
    common, fam = [], {f: [] for f in FAMILIES}
    if arms is None:
        notes.append('get_degrees_of_freedom: no match on the family')
    else:
        common = basis_pushes(pre, notes, 'cell dof (common)')
        if ws(post) != 'basis':
            notes.append('get_degrees_of_freedom: unrecognised tail ' + post.strip()[:60])
        if not re.search(r'match\s+self\.family\b', body):
            notes.append('get_degrees_of_freedom: match is not on self.family')
        seen = set()
        for pat, text in arms:
            if pat == '_':
                if text.strip():
                    notes.append('get_degrees_of_freedom: non-empty default arm')
                continue
            mm = re.match(r'^CrystalFamily::(\w+)$', pat)
            if not mm or mm.group(1) not in fam:
                notes.append('get_degrees_of_freedom: unrecognised arm ' + pat)
                continue
            fam[mm.group(1)] = basis_pushes(text, notes, 'cell dof ' + mm.group(1))
            seen.add(mm.group(1))
    L.append('/-- `Cell2::get_degrees_of_freedom`: handles pushed for every family, then per family -/')
    L.append('def cellDofCommon : List DofSpec := ' + lean_dofs(common))
    L.append('def cellDofFamily : Family → List DofSpec')
    for f in FAMILIES:
        L.append('  | .%s => %s' % (f, lean_dofs(fam[f])))
    L.append('')

    # --- Cell2::from_family
    body = fn_body(cell, 'from_family') or ''
    pre, arms, post = match_arms(body)
    angles = {}
    default = None
    if arms is None:
        notes.append('from_family: no match')
    else:
        for pat, text in arms:
            try:
                e = to_bexpr(text)
            except Unrecognised as ex:
                notes.append('from_family: %s' % ex)
                continue
            if pat == '_':
                default = e
            else:
                mm = re.match(r'^CrystalFamily::(\w+)$', pat)
                if mm:
                    angles[mm.group(1)] = e
                else:
                    notes.append('from_family: unrecognised arm ' + pat)
    mr = re.search(r'ratio:\s*SharedValue::new\(([^)]*)\)', post or '')
    ratio0 = None
    try:
        ratio0 = to_bexpr(mr.group(1)) if mr else None
    except Unrecognised as ex:
        notes.append('from_family: %s' % ex)
    if ratio0 is None:
        notes.append('from_family: initial ratio not found')
        ratio0 = '(.lit 1 1)'
    if not re.search(r'length:\s*SharedValue::new\(length\)', post or '') or \
       not re.search(r'angle:\s*SharedValue::new\(angle\)', post or ''):
        notes.append('from_family: unrecognised constructor')
    L.append('/-- `Cell2::from_family`: initial angle per family, initial ratio -/')
    L.append('def fromFamilyAngle : Family → BExpr')
    for f in FAMILIES:
        e = angles.get(f, default)
        if e is None:
            notes.append('from_family: no angle for ' + f)
            e = '.pi'
        L.append('  | .%s => %s' % (f, e))
    L.append('def fromFamilyRatio : BExpr := ' + ratio0)
    L.append('')

    # --- Cell2 arithmetic shape (hand-modelled; the translator pins the text)
    def norm(x):
        return ws(x or '')
    shapes = {
        'a': ('self.length.get_value()', fn_body(cell, 'a')),
        'b': ('self.length.get_value()*self.ratio.get_value()', fn_body(cell, 'b')),
        'area': ('self.angle().sin()*self.a()*self.b()', fn_body(cell, 'area')),
        'to_cartesian': ('(x*self.a()+y*self.b()*self.angle().cos(),y*self.b()*self.angle().sin())', fn_body(cell, 'to_cartesian')),
        'to_cartesian_isometry': ('transform.set_position(self.to_cartesian_point(transform.position()))', fn_body(cell, 'to_cartesian_isometry')),
        'to_cartesian_translate': ('letposition=transform.position();transform.set_position(self.to_cartesian_point(Translation2::new(xasf64,yasf64)*position))', fn_body(cell, 'to_cartesian_translate')),
        'periodic_images': ('iproduct!(-shells..=shells,-shells..=shells).filter(move|&(x,y)|!(!zero&&x==0&&y==0)).map(move|(x,y)|self.to_cartesian_translate(transform,x,y))', fn_body(cell, 'periodic_images')),
    }
    changed = [k for k, (want, got) in shapes.items() if norm(got) != want]

    # --- OccupiedSite::get_basis
    body = fn_body(site, 'get_basis') or ''
    sd = []
    guards = re.findall(r'if\s+dof\[(\d)\]\s*\{', body)
    if guards != ['0', '1', '2']:
        notes.append('get_basis: unrecognised dof guards %r' % (guards,))
    sd = basis_pushes(body, notes, 'site dof', angle_is='rot')
    # --- the rotational symmetry handed to `get_basis` by `generate_basis` of both state kinds
    rots = []
    for rel in ('src/state/packed.rs', 'src/state/potential.rs'):
        gb = fn_body(read(repo, rel), 'generate_basis') or ''
        m = re.search(r'site\.get_basis\(\s*([^()]*(?:\([^()]*\))?[^()]*)\)', gb)
        rots.append(ws(m.group(1)) if m else '?')
    L.append('/-- the argument of `site.get_basis(…)` in `generate_basis` of PackedState / PotentialState -/')
    L.append('def generateBasisRotSym : List String := [' + ', '.join(lean_str(x) for x in rots) + ']')
    L.append('/-- `OccupiedSite::get_basis` (each guarded by the matching entry of `degrees_of_freedom`) -/')
    L.append('def siteDofSpecs : List DofSpec := ' + lean_dofs(sd))
    L.append('')

    # --- OccupiedSite::from_wyckoff
    body = fn_body(site, 'from_wyckoff') or ''
    mp = re.search(r'let\s+position\s*=\s*([^;]+);', body)
    pos = None
    try:
        pos = to_bexpr(mp.group(1)) if mp else None
    except Unrecognised as ex:
        notes.append('from_wyckoff: %s' % ex)
    if pos is None:
        notes.append('from_wyckoff: position expression not found')
        pos = '(.lit 0 1)'
    ok = all(re.search(p, body) for p in [r'let\s+x\s*=\s*SharedValue::new\(position\)',
                                          r'let\s+y\s*=\s*SharedValue::new\(position\)'])
    ma = re.search(r'let\s+angle\s*=\s*SharedValue::new\(([^)]*)\)', body)
    ang = None
    try:
        ang = to_bexpr(ma.group(1)) if ma else None
    except Unrecognised as ex:
        notes.append('from_wyckoff: %s' % ex)
    if not ok or ang is None:
        notes.append('from_wyckoff: unrecognised initial x/y/angle')
        ang = ang or '(.lit 0 1)'
    L.append('/-- `OccupiedSite::from_wyckoff`: initial x = y = position, initial orientation -/')
    L.append('def siteInitPosition : BExpr := ' + pos)
    L.append('def siteInitAngle : BExpr := ' + ang)
    L.append('')

    # --- OccupiedSite::positions: sym * transform, then periodic(period, offset)
    body = fn_body(site, 'positions') or ''
    mw = re.search(r'\.periodic\(\s*([^,]+),\s*([^)]+)\)', body)
    per = off = None
    try:
        if mw:
            per, off = to_bexpr(mw.group(1)), to_bexpr(mw.group(2))
    except Unrecognised as ex:
        notes_wrap.append('positions: %s' % ex)
    if per is None:
        notes_wrap.append('positions: wrap call not found')
        per, off = '(.lit 1 1)', '(.neg (.lit 1 2))'
    want = 'lettransform=self.transform();self.symmetries().map(move|sym|sym*transform).map(|sym|sym.periodic(%s))' % norm(mw.group(0)[len('.periodic('):-1] if mw else '')
    if norm(body) != want:
        changed.append('OccupiedSite::positions')
    tr = norm(fn_body(site, 'transform'))
    if tr != 'Transform2::new(self.angle.get_value(),(self.x.get_value(),self.y.get_value()))':
        changed.append('OccupiedSite::transform')
    L.append('/-- `OccupiedSite::positions`: `(sym * site_transform).periodic(period, offset)` -/')
    L.append('def wrapPeriod : BExpr := ' + per)
    L.append('def wrapOffset : BExpr := ' + off)
    L.append('')
    L.append('/-- hand-modelled functions whose text differs from the shape the model was written against.')
    L.append('Informational only (no obligation): their behaviour is tied by the bit-exact correspondence. -/')
    L.append('def handModelledChanged : List String := [' + ', '.join(lean_str(k) for k in changed) + ']')
    L.append('')
    L.append('/-- constructs the translator did not recognise (must be empty) -/')
    L.append('def boundsUnrecognised : List String := [' + ', '.join(lean_str(x) for x in notes) + ']')
    L.append('def wrapUnrecognised : List String := [' + ', '.join(lean_str(x) for x in notes_wrap) + ']')
    L.append('')
    L.append('end PV.Generated')
    return '\n'.join(L) + '\n'


# ----------------------------------------------------------------------------- T2b: state constants

def gen_state(repo):
    notes = []      # packed.rs (C01/C02)
    notes_lj = []   # potential.rs, lj_shape.rs (C03/C13)
    notes_line = [] # line2.rs (C12)
    changed = []
    packed = read(repo, 'src/state/packed.rs')
    pot = read(repo, 'src/state/potential.rs')
    ljs = read(repo, 'src/shape/lj_shape.rs')

    def norm(x):
        return ws(x or '')

    def bexpr_or(text, default, where, sink=None):
        try:
            return to_bexpr(text)
        except Exception as e:
            (notes if sink is None else sink).append('%s: %s' % (where, e))
            return default

    L = ['/- GENERATED by tools/pvtx.py from src/state/packed.rs, src/state/potential.rs, src/shape/lj_shape.rs — do not edit. -/',
         'import Model.Expr', 'namespace PV.Generated', '']

    # --- check_intersection: shell rule and prefilter
    body = fn_body(packed, 'check_intersection') or ''
    mh = re.search(r'let\s+height\s*=\s*f64::min\(\s*self\.cell\.a\(\)\s*,\s*self\.cell\.b\(\)\s*\)\s*\*\s*self\.cell\.angle\(\)\.sin\(\)\s*;', body)
    mk = re.search(r'let\s+periodic_range\s*=\s*f64::ceil\(\s*([^;]*?)\s*\*\s*self\.shape\.enclosing_radius\(\)\s*/\s*height\s*\)\s*as\s+i64\s*;', body)
    shell = '(.lit 2 1)'
    if not mh or not mk:
        # not in the textual shape the constant is read from: the model keeps the default; the
        # function body itself is translated by rs2lean.py and tied by Proofs/TiePacked.lean, which
        # fails if the source computes anything else
        pass
    else:
        shell = bexpr_or(mk.group(1), shell, 'shell factor')
    mr = re.search(r'let\s+radius_sq\s*=\s*self\.shape\.enclosing_radius\(\)\.mul\(\s*([^)]*)\)\.powi\(2\)\s*;', body)
    pre = '(.lit 2 1)'
    if not mr:
        pass  # see above: TiePacked is the obligation
    else:
        pre = bexpr_or(mr.group(1), pre, 'prefilter factor')
    # (the loop structure -- prefilter comparison, image loop, in-cell pairs -- used to be pinned
    # textually here; it is now translated by rs2lean.py and tied by Proofs/TiePacked.lean, which
    # re-proves under harmless rewrites)
    L.append('/-- `check_intersection`: shells = ceil(factor · R / (min(a,b) · sin angle)); prefilter (R · factor)² -/')
    L.append('def packedShellFactor : BExpr := ' + shell)
    L.append('def packedPrefilterFactor : BExpr := ' + pre)

    # --- PackedState::score
    sc = norm(fn_body(packed, 'score'))
    if sc != 'ifself.check_intersection(){None}else{Some((self.shape.area()*self.total_shapes()asf64)/self.cell.area())}':
        changed.append('PackedState::score')

    # --- initialise factors
    def init_size(src, where, default, sink):
        m = re.search(r'fn\s+initialise\b', src)
        b = fn_body(src, 'initialise') or ''
        mm = re.search(r'let\s+max_cell_size\s*=\s*([^;]+);', b)
        if not mm:
            sink.append(where + ': max_cell_size not found')
            return default
        if not re.search(r'Cell2::from_family\(\s*wallpaper\.family\s*,\s*max_cell_size\s*\)', b):
            sink.append(where + ': cell is not from_family(wallpaper.family, max_cell_size)')
        if not re.search(r'isopointal\.iter\(\)\.map\(OccupiedSite::from_wyckoff\)', b):
            sink.append(where + ': sites are not from_wyckoff')
        return bexpr_or(mm.group(1), default, where, sink)
    d4 = '(.mul (.mul (.lit 4 1) (.var "enclosing_radius")) (.var "num_shapes"))'
    d2 = '(.mul (.mul (.lit 2 1) (.var "enclosing_radius")) (.var "num_shapes"))'
    L.append('/-- `initialise`: initial cell length as a function of the enclosing radius and copy count -/')
    L.append('def packedInitSize : BExpr := ' + init_size(packed, 'PackedState::initialise', d4, notes))
    L.append('def ljInitSize : BExpr := ' + init_size(pot, 'PotentialState::initialise', d2, notes_lj))

    # --- PotentialState::score: shells, weight, normalisation
    body = fn_body(pot, 'score') or ''
    ms = re.search(r'\.periodic_images\(\s*position\s*,\s*(-?\d+)\s*,\s*false\s*\)', body)
    shells = 3
    if not ms:
        pass  # the function body is translated by rs2lean.py and tied by Proofs/TiePotential.lean
    else:
        shells = int(ms.group(1))
    sums = re.findall(r'sum\s*\+=\s*([^;]+);', body)
    weight = '(.lit 1 1)'
    if len(sums) != 2 or norm(sums[0]).replace('&', '') != 'shape1.energy(shape2)':
        pass  # see above: TiePotential is the obligation
    else:
        mw = re.match(r'^(.*?)\*\s*shape1\.energy\(&?shape2\)$', sums[1].strip()) or \
            re.match(r'^shape1\.energy\(&?shape2\)\s*\*\s*(.*)$', sums[1].strip())
        if mw:
            weight = bexpr_or(mw.group(1), weight, 'periodic weight', notes_lj)
        elif norm(sums[1]).replace('&', '') == 'shape1.energy(shape2)':
            weight = '(.lit 1 1)'
        else:
            pass
    L.append('/-- `PotentialState::score`: image shells, weight of a periodic pair -/')
    L.append('def ljShells : Int := %d' % shells)
    L.append('def ljPeriodicWeight : BExpr := ' + weight)

    # --- LJShape2::from_trimer constants
    body = fn_body(ljs, 'from_trimer') or ''
    msig = re.search(r'sigma:\s*([^,]+?)\s*\*\s*r\s*,', body)
    mcut = re.search(r'cutoff:\s*Some\(\s*([^)]+)\)', body)
    sig = bexpr_or(msig.group(1), '(.lit 2 1)', 'trimer sigma', notes_lj) if msig else None
    cut = bexpr_or(mcut.group(1), '(.lit 7 2)', 'trimer cutoff', notes_lj) if mcut else None
    if sig is None:
        notes_lj.append('LJShape2::from_trimer: sigma factor not found')
        sig = '(.lit 2 1)'
    if cut is None:
        notes_lj.append('LJShape2::from_trimer: cutoff not found')
        cut = '(.lit 7 2)'
    L.append('/-- `LJShape2::from_trimer`: σ = factor · radius, cutoff on every particle -/')
    L.append('def ljTrimerSigmaFactor : BExpr := ' + sig)
    L.append('def ljTrimerCutoff : BExpr := ' + cut)
    # --- Line2::TOLERANCE
    l2 = read(repo, 'src/shape/components/line2.rs')
    mt = re.search(r'const\s+TOLERANCE\s*:\s*f64\s*=\s*([^;]+);', l2)
    tolx = None
    if mt:
        tolx = bexpr_or(mt.group(1), None, 'Line2::TOLERANCE', notes_line)
    if tolx is None:
        notes_line.append('Line2::TOLERANCE not found')
        tolx = '(.lit 1 1000000000000)'
    ib = fn_body(l2, 'intersects') or ''
    # (the shape of the two tolerance tests used to be pinned textually; `Line2::intersects` is now
    # translated by rs2lean.py and tied by Proofs/TieLine.lean)
    L.append('/-- `Line2::TOLERANCE`: relative precision of the segment test -/')
    L.append('def lineTolerance : BExpr := ' + tolx)
    L.append('')
    L.append('def stateHandModelledChanged : List String := [' + ', '.join(lean_str(k) for k in changed) + ']')
    L.append('/-- constructs the translator did not recognise (must be empty), per source file -/')
    L.append('def stateUnrecognised : List String := [' + ', '.join(lean_str(x) for x in notes) + ']')
    L.append('def ljUnrecognised : List String := [' + ', '.join(lean_str(x) for x in notes_lj) + ']')
    L.append('def lineUnrecognised : List String := [' + ', '.join(lean_str(x) for x in notes_line) + ']')
    L.append('')
    L.append('end PV.Generated')
    return '\n'.join(L) + '\n'


# ----------------------------------------------------------------------------- T3/T4/T5: CLI stages, schema, clone/shared state

def struct_fields(src, name):
    """[(field, type, [serde attrs])] of `struct name { … }` (None if not found / tuple struct)"""
    m = re.search(r'((?:#\[[^\]]*\]\s*)*)pub\s+struct\s+' + name + r'\b[^{;(]*\{', src)
    if not m:
        m2 = re.search(r'((?:#\[[^\]]*\]\s*)*)pub\s+struct\s+' + name + r'\s*\(([^)]*)\)\s*;', src)
        if m2:
            return m2.group(1), [('0', m2.group(2).strip(), [])]
        return None, None
    j = match_brace(src, m.end() - 1)
    body = src[m.end():j]
    fields = []
    pending = []
    for part in re.finditer(r'(#\[[^\]]*\])|(?:pub(?:\([^)]*\))?\s+)?([a-z_]\w*)\s*:\s*([^,]+?)\s*(?:,|$)', body, re.S):
        if part.group(1):
            if 'serde' in part.group(1):
                pending.append(ws(part.group(1)))
        else:
            fields.append((part.group(2), re.sub(r'\s+', ' ', part.group(3).strip()), pending))
            pending = []
    return m.group(1), fields


def gen_cli(repo):
    notes = []
    main = read(repo, 'src/main.rs')
    L = ['/- GENERATED by tools/pvtx.py from src/main.rs, src/optimisation.rs, struct definitions and Clone impls — do not edit. -/',
         'import Model.CliTypes', 'namespace PV.Generated', '']

    # ---- T3: the three stages of analyse_state
    body = fn_body(main, 'analyse_state') or ''
    stages = []
    for m in re.finditer(r'optimiser\s*\.clone\(\)((?:\s*\.\s*\w+\([^()]*\))*?)\s*\.\s*build\(\)\s*\.\s*optimise_state\(', body):
        calls = re.findall(r'\.\s*(\w+)\(([^()]*)\)', m.group(1))
        st = []
        for (fn, arg) in calls:
            arg = arg.strip()
            try:
                if fn == 'steps' and re.fullmatch(r'\d+', arg):
                    st.append('.steps %s' % arg)
                elif fn == 'inner_steps' and re.fullmatch(r'\d+', arg):
                    st.append('.innerSteps %s' % arg)
                elif fn == 'kt_start':
                    st.append('.ktStart %s' % to_bexpr(arg))
                elif fn == 'kt_finish':
                    st.append('.ktFinish %s' % to_bexpr(arg))
                elif fn == 'max_step_size':
                    st.append('.maxStep %s' % to_bexpr(arg))
                elif fn == 'seed' and arg == 'index':
                    st.append('.seedIndex')
                elif fn == 'convergence' and arg == 'None':
                    st.append('.convergence none')
                elif fn == 'kt_ratio' and arg == 'None':
                    st.append('.ktRatio none')
                elif fn == 'kt_ratio' and arg.startswith('Some('):
                    st.append('.ktRatio (some %s)' % to_bexpr(arg[5:-1]))
                else:
                    notes.append('analyse_state: unrecognised builder call .%s(%s)' % (fn, arg))
            except Unrecognised as e:
                notes.append('analyse_state: %s' % e)
        stages.append(st)
    if len(stages) != 3:
        notes.append('analyse_state: %d optimisation stages recognised, expected 3' % len(stages))
    if not re.search(r'\(0\s*\.\.\s*start_configs\)\s*\.into_par_iter\(\)', body):
        notes.append('analyse_state: replicas are not (0..start_configs).into_par_iter()')
    red = re.search(r'\)\s*\.\s*(max|min|max_by|min_by|max_by_key|min_by_key|reduce\w*|find\w*|last|first)\s*\(\s*\)\s*\.ok_or_else', body)
    reduction = red.group(1) if red else None
    if reduction is None:
        notes.append('analyse_state: reduction over replicas not recognised')
        reduction = '?'
    if not re.search(r'state\.clone\(\)', body):
        notes.append('analyse_state: replicas do not start from state.clone()')
    # written state = logged state
    if not (re.search(r'serde_json::to_string\(&final_state\)', body) and re.search(r'final_state\s*\.score\(\)', body)
            and re.search(r'svg::save\([^,]+,\s*&final_state\.as_svg\(\)\)', body)):
        notes.append('analyse_state: logged / serialised / drawn state is not final_state')
    # the declared-but-unused `--start-config` option: the structure that is optimised and written
    # comes from `from_group` of the requested group only
    n_sc = len(re.findall(r'\bstart_config\b', main))
    L.append('/-- occurrences of the identifier `start_config` in main.rs (1 = the option is declared and never read) -/')
    L.append('def cliStartConfigUses : Nat := %d' % n_sc)
    L.append('/-- the optimiser overrides of the three stages of `analyse_state`, in order -/')
    L.append('def cliStages : List (List Ovr) := [' + ', '.join('[' + ', '.join(st) + ']' for st in stages) + ']')
    L.append('/-- the reduction applied to the replicas -/')
    L.append('def cliReduction : String := ' + lean_str(reduction))
    L.append('')

    # ---- optimiser defaults (structopt default_value + Default impl)
    opt = read(repo, 'src/optimisation.rs')
    defaults = {}
    for m in re.finditer(r'#\[structopt\(([^\]]*)\)\]\s*(\w+)\s*:', opt):
        dv = re.search(r'default_value\s*=\s*"([^"]*)"', m.group(1))
        if dv:
            defaults[m.group(2)] = dv.group(1)
    L.append('/-- structopt `default_value`s of the optimiser options -/')
    L.append('def cliDefaults : List (String × String) := [' + ', '.join('(%s, %s)' % (lean_str(k), lean_str(v)) for k, v in sorted(defaults.items())) + ']')
    margs = {}
    for m in re.finditer(r'#\[structopt\(([^\]]*)\)\]\s*(\w+)\s*:', main):
        dv = re.search(r'default_value\s*=\s*"([^"]*)"', m.group(1))
        if dv:
            margs[m.group(2)] = dv.group(1)
    L.append('def cliArgDefaults : List (String × String) := [' + ', '.join('(%s, %s)' % (lean_str(k), lean_str(v)) for k, v in sorted(margs.items())) + ']')
    L.append('')

    # ---- T4: serialisation schema (field order, types, serde attributes)
    files = {
        'PackedState': 'src/state/packed.rs', 'PotentialState': 'src/state/potential.rs',
        'Wallpaper': 'src/wallpaper.rs', 'WyckoffSite': 'src/wallpaper.rs', 'Cell2': 'src/cell.rs',
        'OccupiedSite': 'src/site.rs', 'LineShape': 'src/shape/line_shape.rs',
        'MolecularShape2': 'src/shape/molecular_shape2.rs', 'LJShape2': 'src/shape/lj_shape.rs',
        'Line2': 'src/shape/components/line2.rs', 'Atom2': 'src/shape/components/atom2.rs',
        'LJ2': 'src/shape/components/lj2.rs', 'Transform2': 'src/transform.rs',
    }
    rows = []
    for name, rel in files.items():
        src = read(repo, rel)
        attrs, fields = struct_fields(src, name)
        if fields is None:
            notes.append('schema: struct %s not found' % name)
            continue
        derives = re.findall(r'derive\(([^)]*)\)', attrs or '')
        dl = [d.strip() for ds in derives for d in ds.split(',')]
        ser = 'Serialize' in dl
        de = 'Deserialize' in dl
        cont_attrs = [ws(a) for a in re.findall(r'#\[serde[^\]]*\]', attrs or '')]
        fl = ', '.join('(%s, %s, [%s])' % (lean_str(f), lean_str(t), ', '.join(lean_str(a) for a in at)) for (f, t, at) in fields)
        rows.append('  (%s, %s, %s, [%s], [%s])' % (lean_str(name), 'true' if ser else 'false', 'true' if de else 'false',
                                                  ', '.join(lean_str(a) for a in cont_attrs), fl))
    L.append('/-- (struct, derives Serialize, derives Deserialize, container serde attributes, fields in order with type and serde attributes) -/')
    L.append('def schema : List (String × Bool × Bool × List String × List (String × String × List String)) := [')
    L.append(',\n'.join(rows))
    L.append(']')
    basis = read(repo, 'src/basis.rs')
    sv_ser = re.search(r'impl\s+Serialize\s+for\s+SharedValue\s*\{', basis)
    sv_ok = False
    if sv_ser:
        b = basis[sv_ser.end():match_brace(basis, sv_ser.end() - 1)]
        sv_ok = ws(b).endswith('{serializer.serialize_f64(self.get_value())}')
    sv_de = re.search(r'impl<\'de>\s*Deserialize<\'de>\s*for\s+SharedValue\s*\{', basis)
    sv_de_ok = False
    if sv_de:
        b = basis[sv_de.end():match_brace(basis, sv_de.end() - 1)]
        sv_de_ok = 'deserialize_f64(F64Visitor)' in ws(b) and '.map(SharedValue::new)' in ws(b)
    vis = re.search(r'fn\s+visit_f64<E>\(self,\s*value:\s*f64\)[^{]*\{\s*Ok\(value\)\s*\}', basis)
    L.append('/-- `SharedValue` (de)serialises as a bare f64 holding its value -/')
    L.append('def sharedValueIsBareF64 : Bool := ' + ('true' if (sv_ok and sv_de_ok and vis) else 'false'))
    fam = read(repo, 'src/cell.rs')
    mf = re.search(r'((?:#\[[^\]]*\]\s*)*)pub\s+enum\s+CrystalFamily\s*\{([^}]*)\}', fam)
    variants = [v.strip() for v in mf.group(2).split(',') if v.strip()] if mf else []
    L.append('def familyVariants : List String := [' + ', '.join(lean_str(v) for v in variants) + ']')
    L.append('')

    # ---- T5: Clone impls allocate fresh cells; shared-state inventory
    clone_ok = []
    for name, rel, fields in [('Cell2', 'src/cell.rs', ['length', 'ratio', 'angle']), ('OccupiedSite', 'src/site.rs', ['x', 'y', 'angle'])]:
        src = read(repo, rel)
        m = re.search(r'impl\s+Clone\s+for\s+' + name + r'\s*\{', src)
        ok = False
        if m:
            b = ws(src[m.end():match_brace(src, m.end() - 1)])
            ok = all(('%s:SharedValue::new(self.%s.get_value())' % (f, f)) in b for f in fields)
        derive_clone = re.search(r'derive\([^)]*\bClone\b[^)]*\)\]\s*pub\s+struct\s+' + name + r'\b', src) is not None
        clone_ok.append((name, ok and not derive_clone))
    L.append('/-- hand-written `Clone` allocates a fresh `SharedValue` for every parameter field -/')
    L.append('def cloneFresh : List (String × Bool) := [' + ', '.join('(%s, %s)' % (lean_str(n), 'true' if o else 'false') for n, o in clone_ok) + ']')
    inv = []
    pats = [r'\bstatic\s+(?:mut\s+)?[A-Z_]+\s*:', r'thread_local!', r'lazy_static!', r'\bRc<', r'\bArc<', r'\bRefCell<', r'\bMutex<', r'\bRwLock<', r'\bAtomic\w+', r'\bOnceCell\b', r'\bunsafe\b']
    for root, _, fs in os.walk(os.path.join(repo, 'src')):
        for fn in sorted(fs):
            if not fn.endswith('.rs'):
                continue
            rel = os.path.relpath(os.path.join(root, fn), repo)
            src = read(repo, rel)
            for pat in pats:
                for m in re.finditer(pat, src):
                    line = src.count('\n', 0, m.start()) + 1
                    inv.append('%s: %s' % (rel, re.sub(r'\s+', ' ', src[m.start():m.end()])))
    inv = sorted(inv)
    L.append('/-- every `static`, `thread_local!`, shared-ownership / interior-mutability type and `unsafe` in non-test code -/')
    L.append('def sharedStateInventory : List String := [' + ', '.join(lean_str(x) for x in inv) + ']')
    seedpath = ws(fn_body(opt, 'build') or '')
    L.append('/-- with an explicit seed `build` never consults an entropy source -/')
    L.append('def seedOnly : Bool := ' + ('true' if 'letseed=matchself.seed{None=>Pcg64Mcg::from_entropy().gen(),Some(x)=>x};' in seedpath else 'false'))
    rngline = ws(fn_body(opt, 'optimise_state') or '')
    L.append('def rngFromSeed : Bool := ' + ('true' if 'letmutrng=Pcg64Mcg::seed_from_u64(self.seed);' in rngline else 'false'))
    # ---- the total order on states by score (what `.max()` uses)
    order_ok = []
    for rel, ty in [('src/state/packed.rs', 'PackedState'), ('src/state/potential.rs', 'PotentialState')]:
        src = read(repo, rel)
        def body_of(trait, fn):
            m = re.search(r'impl<S>\s+' + trait + r'\s+for\s+' + ty + r'<S>[^{]*\{', src)
            if not m:
                return None
            blk = src[m.end():match_brace(src, m.end() - 1)]
            return ws(fn_body(blk, fn) or '')
        pc = body_of('PartialOrd', 'partial_cmp')
        oc = body_of('Ord', 'cmp')
        # the bodies themselves are regenerated by rs2lean (Generated/FnsPacked, FnsPotential) and proved to be
        # the order by score (Proofs/TieCmp); here only: both impls exist for the state type
        ok = bool(pc) and bool(oc)
        order_ok.append((ty, ok))
        if not ok:
            notes.append('%s: no `PartialOrd::partial_cmp` / `Ord::cmp` impl found' % ty)
    L.append('/-- states are ordered by comparing their scores as floating-point numbers -/')
    L.append('def stateOrderByScore : List (String × Bool) := [' + ', '.join('(%s, %s)' % (lean_str(n), 'true' if o else 'false') for n, o in order_ok) + ']')
    L.append('')
    L.append('def cliUnrecognised : List String := [' + ', '.join(lean_str(x) for x in notes) + ']')
    L.append('')
    L.append('end PV.Generated')
    return '\n'.join(L) + '\n'


# ----------------------------------------------------------------------------- T6: panic inventory

PANIC_PATTERNS = [
    (r'\bpanic!\s*\(', 'panic!'),
    (r'\bassert(?:_eq|_ne)?!\s*\(', 'assert!'),
    (r'\bunreachable!\s*\(', 'unreachable!'),
    (r'\bunimplemented!\s*\(|\btodo!\s*\(', 'todo!'),
    (r'\.unwrap\(\)', '.unwrap()'),
    (r'\.expect\(', '.expect()'),
    (r'\b[a-z_][\w\.]*\[\(?[^\]\n]+\]', 'index'),
    (r'\bself\.steps\s*/\s*self\.inner_steps\b', 'u64 division'),
    (r'Uniform::new\(', 'Uniform::new'),
]


def panic_sites(src, fn_name, after=0):
    body = fn_body(src, fn_name, after)
    if body is None:
        return None
    out = []
    for pat, label in PANIC_PATTERNS:
        for m in re.finditer(pat, body):
            text = re.sub(r'\s+', ' ', body[m.start():m.end()])
            if label == 'index':
                # attribute lists and array type syntax are not indexing
                if text.startswith('vec[') or re.match(r'^[a-z_]+\[\d*\]$', text) is None and False:
                    continue
                label_text = 'index ' + text
            else:
                label_text = label
            out.append((m.start(), label_text))
    out.sort()
    return [t for _, t in out]


def gen_panics(repo):
    notes = []
    L = ['/- GENERATED by tools/pvtx.py: panic-capable constructs of the functions the properties name — do not edit. -/',
         'namespace PV.Generated', '']
    targets = [
        ('src/transform.rs', 'from_operations', 'fromOperationsPanicSites'),
        ('src/optimisation.rs', 'optimise_state', 'optimiseStatePanicSites'),
        ('src/optimisation.rs', 'accept_score', 'acceptScorePanicSites'),
        ('src/optimisation.rs', 'build', 'buildPanicSites'),
        ('src/main.rs', 'analyse_state', 'analyseStatePanicSites'),
        ('src/main.rs', 'main', 'mainPanicSites'),
    ]
    for rel, fn, name in targets:
        src = read(repo, rel)
        sites = panic_sites(src, fn)
        if sites is None:
            notes.append('%s: fn %s not found' % (rel, fn))
            sites = []
        # an inventory, not a sequence: the order of the constructs in the text carries no meaning
        sites = sorted(sites)
        L.append('/-- `%s` in %s (sorted) -/' % (fn, rel))
        L.append('def %s : List String := [' % name + ', '.join(lean_str(x) for x in sites) + ']')
    # set_value / reset_value / sample of StandardBasis
    basis = read(repo, 'src/basis.rs')
    m = re.search(r'impl<\'a>\s*Basis\s+for\s+StandardBasis<\'a>\s*\{', basis)
    sites = []
    if m:
        b = basis[m.end():match_brace(basis, m.end() - 1)]
        for pat, label in PANIC_PATTERNS:
            for mm in re.finditer(pat, b):
                sites.append(label if label != 'index' else 'index ' + re.sub(r'\s+', ' ', b[mm.start():mm.end()]))
    else:
        notes.append('impl Basis for StandardBasis not found')
    sites = sorted(sites)
    L.append('/-- `impl Basis for StandardBasis` (sorted) -/')
    L.append('def basisPanicSites : List String := [' + ', '.join(lean_str(x) for x in sites) + ']')
    L.append('')
    L.append('def panicsUnrecognised : List String := [' + ', '.join(lean_str(x) for x in notes) + ']')
    L.append('')
    L.append('end PV.Generated')
    return '\n'.join(L) + '\n'


# ----------------------------------------------------------------------------- main

GENERATORS = {
    'Tables.lean': gen_tables,
    'Bounds.lean': gen_bounds,
    'State.lean': gen_state,
    'Cli.lean': gen_cli,
    'Panics.lean': gen_panics,
}


def main():
    repo, outdir = sys.argv[1], sys.argv[2]
    os.makedirs(outdir, exist_ok=True)
    changed = []
    for name, fn in GENERATORS.items():
        try:
            text = fn(repo)
        except Exception as e:  # translator failure is a broken obligation, not a crash
            text = ('/- GENERATED: translator failed: %s -/\n'
                    'namespace PV.Generated\n'
                    'def translatorFailed_%s : Bool := true\nend PV.Generated\n') % (
                        str(e).replace('-/', '- /'), name.split('.')[0])
        path = os.path.join(outdir, name)
        old = None
        if os.path.exists(path):
            with open(path, encoding='utf-8') as f:
                old = f.read()
        if old != text:
            with open(path, 'w', encoding='utf-8') as f:
                f.write(text)
            changed.append(name)
    print('pvtx: regenerated', ', '.join(changed) if changed else '(nothing changed)')


if __name__ == '__main__':
    main()
