#!/usr/bin/env python3
"""pvtx — translator: regenerates lean/Generated/*.lean from /repo's current source text.

The data-like parts of the model (group tables, bounds and constants, optimiser defaults and
CLI stage overrides, serde schema, Clone bodies, shared-state and panic inventories) are *not*
typed into the Lean model by hand: they are extracted here, from the source as it is now, on
every run.  Theorems over `Generated.*` are therefore re-checked against what the code says.

Anything that does not match the expected shape is emitted as an `unrecognised` marker and
makes the corresponding `…WellFormed` constant `false`, which breaks a proof obligation
instead of being silently ignored.

Usage: pvtx.py <repo> <outdir>      (files are rewritten only when their content changes)
"""
import os
import re
import sys


# ----------------------------------------------------------------------------- lexing helpers

def strip_comments(src: str) -> str:
    """Remove // and /* */ comments, keeping string/char literals intact."""
    out = []
    i, n = 0, len(src)
    while i < n:
        c = src[i]
        if c == '"':
            j = i + 1
            while j < n and src[j] != '"':
                j += 2 if src[j] == '\\' else 1
            out.append(src[i:j + 1])
            i = j + 1
        elif c == "'" and i + 2 < n and (src[i + 2] == "'" or (src[i + 1] == '\\' and "'" in src[i + 2:i + 6])):
            j = src.index("'", i + 2 if src[i + 1] != '\\' else i + 3)
            out.append(src[i:j + 1])
            i = j + 1
        elif src.startswith('//', i):
            j = src.find('\n', i)
            i = n if j < 0 else j
        elif src.startswith('/*', i):
            j = src.find('*/', i)
            i = n if j < 0 else j + 2
        else:
            out.append(c)
            i += 1
    return ''.join(out)


def strip_tests(src: str) -> str:
    """Drop `#[cfg(test)] mod … { … }` blocks (test-only code is outside every property)."""
    while True:
        m = re.search(r'#\[cfg\(test\)\]\s*mod\s+\w+\s*\{', src)
        if not m:
            return src
        end = match_brace(src, m.end() - 1)
        src = src[:m.start()] + src[end + 1:]


def match_brace(src: str, i: int) -> int:
    """Index of the bracket closing the one at src[i] (handles (), [], {} and string literals)."""
    pairs = {'(': ')', '[': ']', '{': '}'}
    assert src[i] in pairs, src[i:i + 20]
    stack = [pairs[src[i]]]
    j = i + 1
    n = len(src)
    while j < n and stack:
        c = src[j]
        if c == '"':
            j += 1
            while j < n and src[j] != '"':
                j += 2 if src[j] == '\\' else 1
        elif c == "'" and j + 2 < n and src[j + 2] == "'":
            j += 2
        elif c in pairs:
            stack.append(pairs[c])
        elif c in ')]}':
            if c != stack[-1]:
                raise ValueError('unbalanced at %d' % j)
            stack.pop()
        j += 1
    return j - 1


def fn_body(src: str, name: str, after: int = 0):
    """Text between the braces of `fn name…{ … }` (first occurrence after `after`)."""
    m = re.compile(r'\bfn\s+' + re.escape(name) + r'\b').search(src, after)
    if not m:
        return None
    i = src.index('{', m.end())
    # skip a where-clause-free signature: the first '{' at paren depth 0
    depth = 0
    k = m.end()
    while k < len(src):
        if src[k] in '(<[':
            depth += 1
        elif src[k] in ')>]':
            # `->` contains '>' : do not count it
            if not (src[k] == '>' and src[k - 1] == '-'):
                depth -= 1
        elif src[k] == '{' and depth <= 0:
            i = k
            break
        k += 1
    j = match_brace(src, i)
    return src[i + 1:j]


def read(repo, rel):
    with open(os.path.join(repo, rel), encoding='utf-8') as f:
        return strip_tests(strip_comments(f.read()))


def lean_chars(s: str) -> str:
    def one(c):
        if c == "'":
            return "'\\''"
        if c == '\\':
            return "'\\\\'"
        if c == '\n':
            return "'\\n'"
        if c == '\t':
            return "'\\t'"
        if ord(c) < 32 or ord(c) > 126:
            return "(Char.ofNat %d)" % ord(c)
        return "'%s'" % c
    return '[' + ', '.join(one(c) for c in s) + ']'


def lean_str(s: str) -> str:
    return '"' + s.replace('\\', '\\\\').replace('"', '\\"').replace('\n', '\\n') + '"'


def rust_unescape(s: str) -> str:
    return bytes(s, 'utf-8').decode('unicode_escape') if '\\' in s else s


# ----------------------------------------------------------------------------- T1: tables

def gen_tables(repo):
    src = read(repo, 'src/wallpaper.rs')
    notes = []
    variants = []
    m = re.search(r'pub\s+enum\s+WallpaperGroups\s*\{([^}]*)\}', src)
    if m:
        variants = [v.strip() for v in m.group(1).split(',') if v.strip()]
    else:
        notes.append('enum WallpaperGroups not found')
    body = fn_body(src, 'get_wallpaper_group')
    entries = []
    if body is None:
        notes.append('fn get_wallpaper_group not found')
        body = ''
    arm = re.compile(
        r'WallpaperGroups::(\w+)\s*=>\s*Ok\(\s*WallpaperGroup\s*\{\s*'
        r'name:\s*"((?:[^"\\]|\\.)*)"\s*,\s*'
        r'family:\s*CrystalFamily::(\w+)\s*,\s*'
        r'wyckoff_str:\s*vec!\[((?:\s*"(?:[^"\\]|\\.)*"\s*,?)*)\]\s*,?\s*\}\s*\)\s*,?')
    pos = 0
    for mm in arm.finditer(body):
        ops = [rust_unescape(x) for x in re.findall(r'"((?:[^"\\]|\\.)*)"', mm.group(4))]
        entries.append((mm.group(1), rust_unescape(mm.group(2)), mm.group(3), ops))
    n_arrows = len(re.findall(r'=>', body))
    if n_arrows != len(entries):
        notes.append('get_wallpaper_group: %d match arms, %d recognised' % (n_arrows, len(entries)))
    # the function must be exactly `match name { arms }`
    rest = arm.sub('', body)
    if re.sub(r'\s+', '', rest) != 'matchname{}':
        notes.append('get_wallpaper_group: unrecognised residue: ' + re.sub(r'\s+', ' ', rest)[:120])
    fams = {'Monoclinic', 'Orthorhombic', 'Hexagonal', 'Tetragonal'}
    for e in entries:
        if e[2] not in fams:
            notes.append('unknown family ' + e[2])
    entries = [e for e in entries if e[2] in fams]

    # Wallpaper::new must copy name and family from the group
    wnew = fn_body(src, 'new')
    ok_new = wnew is not None and re.sub(r'\s+', '', wnew) == \
        'Wallpaper{name:String::from(group.name),family:group.family,}'
    if not ok_new:
        notes.append('Wallpaper::new: unrecognised body')

    # WyckoffSite::new parses every string with Transform2::from_operations, in order
    m2 = re.search(r'impl\s+WyckoffSite\s*\{', src)
    wy = fn_body(src, 'new', m2.end()) if m2 else None
    wy_ok = wy is not None and re.sub(r'\s+', '', wy).startswith(
        'letsymmetries=group.wyckoff_str.iter().map(|&a|Transform2::from_operations(a))'
        '.collect::<Result<Vec<_>,_>>()?;Ok(WyckoffSite{letter:\'a\',symmetries,')
    if not wy_ok:
        notes.append('WyckoffSite::new: unrecognised body')

    # degrees_of_freedom of the general site
    dof = fn_body(src, 'degrees_of_freedom')
    dof_list = None
    if dof is not None:
        md = re.fullmatch(r'&\[(.*)\]', re.sub(r'\s+', '', dof))
        if md:
            dof_list = [x == 'true' for x in md.group(1).split(',') if x]
    if dof_list is None:
        notes.append('WyckoffSite::degrees_of_freedom: unrecognised body')
        dof_list = []

    L = []
    L.append('/- GENERATED by tools/pvtx.py from src/wallpaper.rs — do not edit. -/')
    L.append('import Model.Family')
    L.append('namespace PV.Generated')
    L.append('')
    L.append('/-- the variants of `arg_enum! WallpaperGroups` (what the CLI accepts), in order -/')
    L.append('def cliVariants : List (List Char) := [' + ', '.join(lean_chars(v) for v in variants) + ']')
    L.append('')
    L.append('/-- one entry per arm of `get_wallpaper_group`, in source order -/')
    L.append('def tables : List TableEntry := [')
    rows = []
    for (v, name, fam, ops) in entries:
        rows.append('  { variant := %s, name := %s, family := .%s,\n    ops := [%s] }' % (
            lean_chars(v), lean_chars(name), fam, ', '.join(lean_chars(o) for o in ops)))
    L.append(',\n'.join(rows))
    L.append(']')
    L.append('')
    L.append('/-- `WyckoffSite::degrees_of_freedom` (x, y, angle) -/')
    L.append('def siteDof : List Bool := [' + ', '.join('true' if b else 'false' for b in dof_list) + ']')
    L.append('')
    L.append('/-- `Wallpaper::new` copies `name` and `family` from the table entry -/')
    L.append('def wallpaperNewCopies : Bool := ' + ('true' if ok_new else 'false'))
    L.append('/-- `WyckoffSite::new` maps `Transform2::from_operations` over the strings, in order -/')
    L.append('def wyckoffNewParsesAll : Bool := ' + ('true' if wy_ok else 'false'))
    L.append('')
    L.append('/-- constructs of `wallpaper.rs` the translator did not recognise (must be empty) -/')
    L.append('def tablesUnrecognised : List String := [' + ', '.join(lean_str(x) for x in notes) + ']')
    L.append('')
    L.append('end PV.Generated')
    return '\n'.join(L) + '\n'


# ----------------------------------------------------------------------------- main

GENERATORS = {
    'Tables.lean': gen_tables,
}


def main():
    repo, outdir = sys.argv[1], sys.argv[2]
    os.makedirs(outdir, exist_ok=True)
    changed = []
    for name, fn in GENERATORS.items():
        try:
            text = fn(repo)
        except Exception as e:  # translator failure is a broken obligation, not a crash
            text = ('/- GENERATED: translator failed: %s -/\n'
                    'import Model.Family\nnamespace PV.Generated\n'
                    'def translatorFailed_%s : Bool := true\nend PV.Generated\n') % (
                        str(e).replace('-/', '- /'), name.split('.')[0])
        path = os.path.join(outdir, name)
        old = None
        if os.path.exists(path):
            with open(path, encoding='utf-8') as f:
                old = f.read()
        if old != text:
            with open(path, 'w', encoding='utf-8') as f:
                f.write(text)
            changed.append(name)
    print('pvtx: regenerated', ', '.join(changed) if changed else '(nothing changed)')


if __name__ == '__main__':
    main()
