#!/usr/bin/env python3
"""verify_seeded.py <deliver-dir> <PID> [--keep <name>]

Confirms a seeded change independently (scratch worktree of /repo HEAD, removed afterwards):
  1. the patch applies, the crate builds, the existing suite passes with it;
  2. the demonstration fails with the patch and passes without it;
then applies the patch to /repo, runs ./check for the given properties, and reverts /repo.
Writes the outcome as JSON on stdout; with --keep copies patch/demo/meta to /verif/seeded/<name>/.
"""
import json
import os
import shutil
import subprocess
import sys
import tempfile

VERIF = os.path.dirname(os.path.dirname(os.path.abspath(__file__)))


def sh(cmd, cwd=None, timeout=3600):
    p = subprocess.run(cmd, cwd=cwd, stdout=subprocess.PIPE, stderr=subprocess.STDOUT, timeout=timeout,
                       env=dict(os.environ, CARGO_NET_OFFLINE='true'))
    return p.returncode, p.stdout.decode('utf-8', 'replace')


def main():
    deliver = sys.argv[1]
    pids = sys.argv[2].split(',')
    keep = sys.argv[sys.argv.index('--keep') + 1] if '--keep' in sys.argv else None
    patch = os.path.join(deliver, 'patch.diff')
    demos = [f for f in os.listdir(deliver) if f.startswith('demo_') and f.endswith('.rs')]
    out = {'deliver': deliver, 'properties': pids}
    wt = tempfile.mkdtemp(prefix='vs_', dir='/tmp')
    os.rmdir(wt)
    rc, o = sh(['git', '-C', '/repo', 'worktree', 'add', '--detach', wt, 'HEAD'])
    try:
        rc, o = sh(['git', 'apply', '--3way', patch], cwd=wt)
        if rc != 0:
            rc, o = sh(['git', 'apply', patch], cwd=wt)
        out['patch_applies'] = rc == 0
        if rc != 0:
            out['error'] = o[-800:]
            print(json.dumps(out, indent=1))
            return 1
        rc, o = sh(['git', 'diff', 'HEAD', '--', 'src'], cwd=wt)
        fresh_patch = o
        rc, o = sh(['cargo', 'test', '--offline', '--lib', '--test', 'packing', '--test', 'potential'], cwd=wt)
        out['suite_passes_with_patch'] = rc == 0
        out['suite_tail'] = [l for l in o.splitlines() if l.startswith('test result')]
        for d in demos:
            shutil.copy(os.path.join(deliver, d), os.path.join(wt, 'tests', d))
        res = {}
        for d in demos:
            name = d[:-3]
            rc1, o1 = sh(['cargo', 'test', '--offline', '--test', name], cwd=wt)
            res[name] = {'fails_with_patch': rc1 != 0}
        sh(['git', 'checkout', 'HEAD', '--', 'src'], cwd=wt)
        for d in demos:
            name = d[:-3]
            rc2, o2 = sh(['cargo', 'test', '--offline', '--test', name], cwd=wt)
            res[name]['passes_without_patch'] = rc2 == 0
        out['demos'] = res
    finally:
        sh(['git', '-C', '/repo', 'worktree', 'remove', '--force', wt])
    ok = out.get('suite_passes_with_patch') and all(v['fails_with_patch'] and v['passes_without_patch'] for v in out.get('demos', {}).values()) and out.get('demos')
    out['confirmed'] = bool(ok)
    # run the checks against it
    checks = {}
    if ok:
        rc, o = sh(['git', '-C', '/repo', 'status', '--porcelain', '--', 'src'])
        if o.strip():
            out['error'] = '/repo not clean'
        else:
            p2 = os.path.join('/tmp', 'vs_patch.diff')
            open(p2, 'w').write(fresh_patch)
            rc, o = sh(['git', '-C', '/repo', 'apply', p2])
            saved = {}
            for pid in pids:
                ev = os.path.join(VERIF, 'evidence', pid + '.json')
                if os.path.exists(ev):
                    saved[ev] = open(ev).read()
            try:
                for pid in pids:
                    rc, o = sh([os.path.join(VERIF, 'check'), pid, '--tier', 'quick'], cwd=VERIF)
                    lines = [l for l in o.splitlines() if l.startswith('VIOLATION') or l.startswith(pid)]
                    checks[pid] = {'exit': rc, 'lines': lines[:6]}
            finally:
                sh(['git', '-C', '/repo', 'checkout', '--', '.'])
                # evidence files must describe the unchanged tree: put them back
                for ev, txt in saved.items():
                    open(ev, 'w').write(txt)
            os.remove(p2)
    out['checks'] = checks
    out['caught_by'] = [p for p, v in checks.items() if v['exit'] == 1]
    if keep and ok:
        dst = os.path.join(VERIF, 'seeded', keep)
        os.makedirs(dst, exist_ok=True)
        open(os.path.join(dst, 'patch.diff'), 'w').write(fresh_patch)
        for d in demos:
            shutil.copy(os.path.join(deliver, d), os.path.join(dst, d))
        meta = {}
        mp = os.path.join(deliver, 'meta.json')
        if os.path.exists(mp):
            try:
                meta = json.load(open(mp))
            except Exception:
                meta = {'raw': open(mp).read()}
        meta['verified'] = {k: out[k] for k in ('patch_applies', 'suite_passes_with_patch', 'suite_tail', 'demos', 'confirmed')}
        meta['checks_run'] = checks
        meta['caught_by'] = out['caught_by']
        json.dump(meta, open(os.path.join(dst, 'meta.json'), 'w'), indent=1)
    print(json.dumps(out, indent=1))
    return 0


if __name__ == '__main__':
    sys.exit(main())
