#!/usr/bin/env python3
"""recheck_seeded.py [name-prefix …] — regression run of the kept seeded changes.

For every /verif/seeded/<name>/ (patch.diff, meta.json): apply the patch to /repo, run the quick check of
the property the change breaks, revert /repo, and report whether the check exited 1 and whether the
VIOLATION line carries a failing input.  /repo must be clean; evidence files are restored afterwards.
"""
import json
import os
import subprocess
import sys

VERIF = os.path.dirname(os.path.dirname(os.path.abspath(__file__)))


def sh(cmd, cwd=None):
    p = subprocess.run(cmd, cwd=cwd, stdout=subprocess.PIPE, stderr=subprocess.STDOUT)
    return p.returncode, p.stdout.decode('utf-8', 'replace')


def main():
    pre = sys.argv[1:]
    rc, o = sh(['git', '-C', '/repo', 'status', '--porcelain', '--', 'src'])
    if o.strip():
        print('/repo is not clean')
        return 2
    names = sorted(n for n in os.listdir(os.path.join(VERIF, 'seeded')) if os.path.exists(os.path.join(VERIF, 'seeded', n, 'meta.json')))
    if pre:
        names = [n for n in names if any(n.startswith(p) for p in pre)]
    rows = []
    for n in names:
        d = os.path.join(VERIF, 'seeded', n)
        meta = json.load(open(os.path.join(d, 'meta.json')))
        pid = meta['property']
        ev = os.path.join(VERIF, 'evidence', pid + '.json')
        saved = open(ev).read() if os.path.exists(ev) else None
        rc, o = sh(['git', '-C', '/repo', 'apply', os.path.join(d, 'patch.diff')])
        if rc != 0:
            rows.append((n, pid, 'patch does not apply', ''))
            continue
        try:
            rc, o = sh([os.path.join(VERIF, 'check'), pid, '--tier', 'quick'], cwd=VERIF)
        finally:
            sh(['git', '-C', '/repo', 'checkout', '--', '.'])
            if saved is not None:
                open(ev, 'w').write(saved)
        v = [l for l in o.splitlines() if l.startswith('VIOLATION')]
        kind = 'MISSED' if rc == 0 else ('input' if any('no-failing-input-found' not in l for l in v) else 'obligation-only')
        rows.append((n, pid, kind, o.splitlines()[-1][:110] if o.splitlines() else ''))
        print('%-42s %s %-16s %s' % rows[-1], flush=True)
    out = os.path.join(VERIF, 'seeded', 'RECHECK.json')
    prev = {}
    if os.path.exists(out):
        try:
            prev = {e['seeded']: e for e in json.load(open(out))}
        except Exception:
            prev = {}
    for r in rows:
        prev[r[0]] = {'seeded': r[0], 'property': r[1], 'outcome': r[2]}
    json.dump([prev[k] for k in sorted(prev)], open(out, 'w'), indent=1)
    missed = [r for r in rows if r[2] != 'input']
    print('%d seeded changes, %d caught with a failing input, %d otherwise' % (len(rows), len(rows) - len(missed), len(missed)))
    return 0


if __name__ == '__main__':
    sys.exit(main())
