"""props — per-property wiring: theorem modules Th(P), request families Co(P), search budget,
evidence rule (DESIGN.md appendix B)."""

# ---------------------------------------------------------------- reply classification helpers

ZERO = '0000000000000000'


def _parse_nontrivial(q, a):
    # a grammar string with at least two non-zero entries, or an error other than tooFew
    if a.startswith('ok '):
        return sum(1 for t in a.split()[1:] if t not in (ZERO, '8000000000000000')) >= 2
    return a.startswith('err') and not a.startswith('err tooFew')


def _tables_nontrivial(q, a):
    return a.startswith('ok ')


def _ok_nontrivial(q, a):
    return a.startswith('ok')


def _cell_nontrivial(q, a):
    # images with at least one shell, or any other successful cell operation on a non-right angle
    t = q.split(' ')
    if t[1] == 'images':
        return a.startswith('ok') and int(a.split(' ')[1]) >= 8
    return a.startswith('ok')


def _site_nontrivial(q, a):
    # a site of a group of order >= 2
    t = q.split(' ')
    return a.startswith('ok') and len(t) > 2 and t[2].isdigit() and int(t[2]) >= 2


def _opt_nontrivial(q, a):
    # a run with at least a handful of score calls
    t = a.split(' ')
    return t[0] == 'ok' and int(t[1]) >= 5


NONTRIVIAL = {
    'parse': _parse_nontrivial,
    'tables': _tables_nontrivial,
    'cell': _cell_nontrivial,
    'site': _site_nontrivial,
    'opt': _opt_nontrivial,
    'optc_hard': _opt_nontrivial,
    'optc_lj': _opt_nontrivial,
    'optc': _opt_nontrivial,
}


def _cls2(q, a):
    return ' '.join(a.split(' ')[:2]) if a.startswith('err') else a.split(' ')[0]


def _cls_op(q, a):
    t = q.split(' ')
    return (t[1] if len(t) > 1 else '?') + ':' + (a.split(' ')[0] if a else '')


CLASSIFY = {
    'parse': _cls2,
    'tables': _cls2,
    'mat': _cls_op, 'wrap': _cls_op, 'cell': _cls_op, 'site': _cls_op, 'rng': _cls_op,
    'basis': _cls_op, 'opt': _cls_op, 'state': _cls_op, 'state_hard': _cls_op, 'state_lj': _cls_op,
    'pair': _cls_op, 'pair_hard': _cls_op, 'pair_lj': _cls_op, 'optc': _cls_op, 'optc_hard': _cls_op, 'optc_lj': _cls_op,
    'json': _cls_op, 'svg': _cls_op, 'cli': _cls_op,
}


def tolerant_equal(fam, q, a, b):
    """Tier-2 agreement (DESIGN.md §2.3): float-noise tolerance for families where the property
    itself is stated up to floating-point accuracy. Tier 1 (bit equality) is tried first by the
    caller; a family is listed here only when a harmless re-association of the crate's arithmetic
    must not raise an alarm."""
    tol = TOLERANT.get(fam)
    if tol is None:
        return False
    return tol(q, a, b)


import re as _re
import struct as _struct

_HEX16 = _re.compile(r'^[0-9a-f]{16}$')
NOISE = {'count': 0}


def _f(tok):
    return _struct.unpack('<d', bytes.fromhex(tok)[::-1])[0]


def _float_noise(q, a, b):
    """replies equal token by token, float tokens (bit patterns) allowed to differ by 1e-12 relative:
    what a harmless re-association of floating-point arithmetic produces. Decisions (0/1, some/none,
    counts, names) must be identical."""
    ta, tb = a.split(' '), b.split(' ')
    if len(ta) != len(tb):
        return False
    for x, y in zip(ta, tb):
        if x == y:
            continue
        if not (_HEX16.match(x) and _HEX16.match(y)):
            return False
        fx, fy = _f(x), _f(y)
        if fx != fx or fy != fy or abs(fx) == float('inf') or abs(fy) == float('inf'):
            return False
        if abs(fx - fy) > 1e-12 * max(abs(fx), abs(fy)) + 1e-300:
            return False
    NOISE['count'] += 1
    return True


# tier 2 applies to single-evaluation families whose outputs are numbers the properties state "to
# floating-point accuracy"; never to wrap (edge behaviour at +-1/2 is the point), rng, basis, opt*
# (whole trajectories), parse, tables, json, svg, cli (exact by nature)
TOLERANT = {f: _float_noise for f in ('mat', 'cell', 'site', 'pair', 'pair_hard', 'pair_lj', 'state', 'state_hard', 'state_lj')}

# ---------------------------------------------------------------- properties

COMMON_TRUST = []
SOURCE_COMMITS = []
NOT_CLAIMED = {}

PROPS = {
    'C01': {
        'level_text': 'Proof over R about the model of check_intersection (after the fix deriving the shell count from the cell heights): if the check finds nothing (a score is reported) then NO two distinct lattice images of symmetry copies properly meet, for all copies i,j and all lattice vectors however far (prefilter soundness from orthogonal placements and the enclosing radius, |uA+vB| >= |u| a sin t, shells*min(a,b)*sin t >= 2R for the generated shell rule, translation invariance and symmetry of the pair tests, completeness of the pair tests from C12). Discs: the open disc-unions of distinct images are disjoint. Polygons: edges that really share a point and are not near-parallel are excluded; overlapping interiors of convex copies force such a pair of edges (C12Convex/C12Orient/C12Polygon) up to the explicit angle and not-nested hypotheses. check_intersection, score, positions and periodic_images are regenerated from the source and proved equal to the model (TiePacked, TieSite, TieImages).',
        'level_note': 'Trusted: Lean kernel + 3 axioms; model of packed.rs/cell.rs/site.rs tied by bit-exact state/optc families; shell rule and prefilter constants regenerated by the translator and pinned by a decidable obligation; f64 rounding outside the theorem.',
        'technique': 'Lean 4 geometric proof over R + source-to-Lean translation of check_intersection / positions / periodic_images with tie theorems + translator-pinned constants + bit-exact differential correspondence',
        'theorems': ['Proofs.C01', 'Proofs.C12Convex', 'Proofs.TieDisc', 'Proofs.TieLine', 'Proofs.TieHardShape', 'Proofs.TiePacked', 'Proofs.TieImages', 'Proofs.TieSite', 'Proofs.C12Orient', 'Proofs.C12Polygon', 'Proofs.C12Placed', 'Proofs.C01Polygon', 'Proofs.SrcC01', 'Proofs.TieShapeDispatch', 'Proofs.TieOps'],
        'families': [('state_hard', 2500, 40000), ('optc_hard', 200, 4000), ('pair_hard', 1500, 20000)],
        'search': (15, 400),
        'rule': 'state: 7 groups x polygons/radial/circle/trimers x cells over the optimiser box (dense and dilute) incl. bound-clamped coordinates; non-trivial = any ok reply; search: exhaustive lattice-overlap oracle (shells from cell heights + margin, SAT / disc distances) on adversarial dense/skewed/elongated states, on far-overlap-only states found by geometric rejection sampling, and on states returned by the optimiser',
        'assumptions': ['placements have orthogonal linear part and wrapped position (proved from the tables, C15)', 'f64 rounding not modelled'],
        'trusted': ['f64 rounding is not modelled (theorems exact over R; the search evaluates them on the real outputs with the property tolerance 1e-9)'],
    },
    'C02': {
        'level_text': 'Proof over R: score = area*N/cellArea with cellArea = |AxB| (C14); LineShape area equals the shoelace area of the closed outline from_radial builds (n>=3, r>=0), (n/2) sin(2pi/n) for polygon n; disc-union area = measure of the union minus the triple intersection for any finite measure realising the disc and lens values (exact when no point lies in all three discs, an under-count otherwise: known finding F10). The lens value is proved for Lebesgue measure in all three regimes (C02Lens.volume_inter_eq_circleOverlap, by integration, for discs centred on the x-axis). area / score / cell area are regenerated from the source and proved equal to the model (TieDisc, TieHardShape, TieCell, TiePacked). score <= 1: for N measurable copies ALL of whose lattice translates are pairwise disjoint (the conclusion of C01), N*area <= |det(A,B)| = cell area, for Lebesgue measure on the plane and the lattice spanned by any basis (C02Tiling.packing_fraction_le_one, from the principle of Blichfeldt and the ZSpan fundamental domain; the tiling hypothesis of covered_le_cell is thereby a theorem). The lens value holds for two discs ANYWHERE in the plane (C02LensGeneral.volume_inter_eq_circleOverlap_general: the rigid motion taking a general pair to the axis-aligned one preserves Lebesgue measure - rotation of determinant one, translation invariance; coincident centres included). For the circle shape nothing is left as a hypothesis: N open discs of radius r with pairwise disjoint lattice translates satisfy N pi r^2 <= |det(A,B)| (C02Circles.circle_packing_fraction_le_one: discs are measurable and have Lebesgue measure pi r^2 wherever they are). Partial: for general shapes measurability of the placed copies is a hypothesis of the packing-fraction bound. The constructors from_radial / polygon / from_trimer / circle are regenerated from the source and proved to build the outlines and disc sets the area theorems are about (TieCtor).',
        'level_note': 'Trusted: lens-area closed form and "shoelace = area" as geometry; Lean kernel + 3 axioms; Mathlib measure theory; area/score functions tied by bit-exact pair/state families.',
        'technique': 'Lean 4 proof (trigonometric identities, inclusion-exclusion and integration in measure theory) + source-to-Lean translation with tie theorems + differential correspondence + exact-area oracle',
        'theorems': ['Proofs.C02', 'Proofs.TieDisc', 'Proofs.TieCell', 'Proofs.TieHardShape', 'Proofs.TiePacked', 'Proofs.C02Lens', 'Proofs.SrcC02', 'Proofs.TieShapeDispatch', 'Proofs.C02Tiling', 'Proofs.TieCtor', 'Proofs.C02LensGeneral', 'Proofs.C02Circles'],
        'families': [('pair_hard', 2500, 40000), ('state_hard', 1500, 20000), ('cell', 800, 10000)],
        'search': (12, 300),
        'rule': 'pair: area/radius/items of polygons 3..69 sides, radial polygons, circle, trimers over the CLI parameter space; search: shoelace oracle, union-of-discs area by tanh-sinh scanline integration stratified by overlap topology, score = N*area/|AxB| in (0,1] on random and optimised states',
        'assumptions': ['f64 rounding not modelled'],
        'trusted': ['f64 rounding is not modelled (theorems exact over R; the search evaluates them on the real outputs with the property tolerance 1e-9)'],
    },
    'C03': {
        'level_text': 'Proof over R about the model of PotentialState::score (after the weight fix): score = -(in-cell pairs once + 1/2 * ordered image pairs over 3 shells)/N with weight and shell count regenerated from the source; for a symmetric pair energy (all particles alike, C13) this is -(1/N)*(1/2)*sum_i sum over all other images (j,T) in the box of E(i,j+T): every pair of distinct images counted once per molecule, independent of whether a neighbour is an in-cell copy or a periodic image; for cut potentials every term outside the box of k shells is exactly 0 when k*min(a,b)*sin t >= cutoff + 2*extent, so the box sum equals every larger box sum. Partial: uncut potential = the truncated sum (tail not bounded); unlike particles (F11b) and images beyond shell 3 (F7) are known findings; invariance under re-description is covered by the lattice-sum and origin-shift oracles.',
        'level_note': 'Trusted: Lean kernel + 3 axioms; score model tied by bit-exact state/optc families; constants (3 shells, weight 1/2, normalisation) regenerated by the translator and pinned.',
        'technique': 'Lean 4 proof over R (finite lattice sums) + source-to-Lean translation of the function bodies with tie theorems + translator-pinned constants + bit-exact differential correspondence + independent lattice-sum oracle',
        'theorems': ['Proofs.C03', 'Proofs.TieLJ', 'Proofs.TieLJShape', 'Proofs.TiePotential', 'Proofs.TieImages', 'Proofs.TieSite', 'Proofs.SrcC03', 'Proofs.TieShapeDispatch', 'Proofs.TieOps'],
        'families': [('state_lj', 2500, 40000), ('pair_lj', 1500, 20000), ('optc_lj', 150, 3000)],
        'search': (15, 400),
        'rule': 'state: LJ circle and trimers x 7 groups x cells incl. flat/skewed; search: independent closed-form lattice sum (code convention and each-pair-once convention, exhaustive shells for cut potentials) against score(), and origin shifts by symmetry-equivalent half lattice vectors (tolerance for the uncut potential = truncation error measured by the oracle)',
        'assumptions': ['f64 rounding not modelled'],
        'trusted': ['f64 rounding is not modelled'],
    },
    'C04': {
        'level_text': 'Full proof: the parser commutes with Q->R, so kernel-decided table facts (projective row zero, +-I only for oblique tables, diag(+-1,+-1) only for rectangular tables, closure mod lattice) hold of the real matrices; for every table, every cell of its family (cos angle = 0 for rectangular), every site and every group operation g, X -> L_g X + C t_g is orthogonal and maps the placement of copy k onto that of a copy k\' translated by a lattice vector (orientation, handedness, position); one copy per operation; the family constraint depends on the angle only and holds initially; preserved by optimisation through C08.',
        'level_note': 'Trusted: Lean kernel + 3 axioms; translator for tables; model of site/cell positions tied by bit-exact site/state families.',
        'technique': 'Lean 4 proof over R with kernel-decided table facts transported through a parser-cast theorem + source-to-Lean translation of the function bodies with tie theorems + differential correspondence',
        'theorems': ['Proofs.C04', 'Proofs.TieWrap', 'Proofs.TieSite', 'Proofs.TieImages', 'Proofs.SrcC04'],
        'families': [('site', 2000, 40000), ('state', 2000, 30000), ('tables', 14, 14)],
        'search': (10, 240),
        'rule': 'search: on real states (both kinds, all groups, also after optimisation) every reference group operation in Cartesian form must be an isometry of the current cell and map the set of real cartesian_positions() onto itself modulo the lattice (1e-9)',
        'assumptions': ['f64 rounding not modelled'],
        'trusted': ['f64 rounding is not modelled (theorems exact over R; the search evaluates them on the real outputs with the property tolerance 1e-9)'],
    },
    'C09': {
        'needs_cli': True,
        'level_text': 'Partial proof. Determinism of the model is by construction (optimise / replica / cliRun are functions of state, settings and seed). Proved: from the source as it is now, Clone of Cell2/OccupiedSite allocates a fresh cell per parameter, no static/thread_local/Rc/Arc/RefCell/Mutex/Atomic exists, the only unsafe items are the four in basis.rs, a set seed bypasses entropy; noninterference: k replicas stepping over ONE shared heap under ANY interleaving through handles on pairwise disjoint cells with local scores end exactly as if run alone and never write a cell of another replica or of the original; every stage carries the replica index as seed; the reduction is bracketing-independent (C10). Not exhibited by the model: data races on the unsynchronised UnsafeCell, the memory model, rayon scheduling - covered empirically by thread sweeps of the real binary and a thread-pool oracle. The ordering the reduction uses (PartialEq / PartialOrd / Ord of both state types) is regenerated from the source; the model reduction step is std::cmp::max for it (TieCmp).',
        'level_note': 'Trusted: soundness of the hand-written unsafe impl Send/Sync given that each replica owns its cells (justified at source level by clone_fresh + move semantics); rayon; Lean kernel + 3 axioms; translator for Clone bodies and the shared-state inventory.',
        'technique': 'Lean 4 noninterference proof over a shared heap with arbitrary schedules + translator-pinned source inventory + source-to-Lean translation of the ordering of states with a tie theorem + differential correspondence of whole CLI runs under thread sweeps',
        'theorems': ['Proofs.C09', 'Proofs.TieCmp'],
        'families': [('cli', 25, 400), ('opt', 800, 10000)],
        'search': (25, 600),
        'rule': 'cli: real binary on small settings, all groups x shapes x potentials, replications 0..4, compared with the model pipeline (JSON dump + logged score); search: the same invocation under RAYON_NUM_THREADS in {1,2,3,4,8,16} and fresh processes must give byte-identical files; 2..5 different optimisations run 3x interleaved in rayon pools of 1..16 threads must equal their solo results bit for bit and leave the originals untouched',
        'assumptions': ['thread schedules and the hardware memory model are not modelled'],
        'trusted': ['rayon 1.4.0 reduce_with preserves index order (modelled as any bracketing)'],
    },
    'C10': {
        'needs_cli': True,
        'level_text': 'Full proof about the model of analyse_state (stage overrides and reduction regenerated from main.rs and pinned): the written structure is one of the replica results, its score is at least every replica\'s and equals the logged value; any bracketing of the reduction returns the last maximal element; replica i does not depend on the replication count, hence prefix monotonicity; optimisation changes parameters only, so the written structure carries the requested group name, family, shape, kind and the group\'s full number of copies; zero replications is an error. Table labels equal lookup names (kernel-decided on the regenerated table). The ordering of states is regenerated from the source and the model reduction step is std::cmp::max for it (TieCmp: ordered by score, right operand on ties, None = the panicking unwrap); the shape constructors the CLI calls are regenerated too (TieCtor).',
        'level_note': 'Trusted: structopt/clap argument parsing; rayon; Lean kernel + 3 axioms; whole CLI runs of the real binary are compared with the model bit for bit (cli family).',
        'technique': 'Lean 4 proof over the pipeline model + translator-pinned stages/reduction/labels + source-to-Lean translation of the ordering of states and of the shape constructors with tie theorems + differential correspondence with the real binary',
        'theorems': ['Proofs.C10', 'Proofs.TieCmp', 'Proofs.TieCtor'],
        'families': [('cli', 30, 500), ('tables', 14, 14)],
        'search': (25, 600),
        'rule': 'cli as for C09; search: real binary — logged score = score of the written file, labels = arguments, copies = group order, and the same invocation with 1..3 more replications never scores lower',
        'assumptions': [],
        'trusted': ['structopt/clap parsing'],
    },
    'C11': {
        'needs_cli': True,
        'level_text': 'Proof for an arbitrary carrier: decoding the value tree the state serialises to gives back the very same state (every parameter, label, family, shape components, sites and operations), hence identical score, placements and re-serialisation; the schema (field order, types, no serde attributes, SharedValue as bare number) is regenerated from the struct definitions and pinned. SVG: matrix(a b c d e f) applied to a point is the placement applied to the point; the document lists the cell and 8 neighbours, then per placement its Cartesian transform and exactly its 8 nearest lattice images, each a lattice translate with unchanged orientation. Partial: number<->text (ryu, serde_json with float_roundtrip) is trusted and checked by the search.',
        'level_note': 'Trusted: serde derive follows declaration order; ryu/serde_json float text (after the fix enabling float_roundtrip); svg crate printing; Lean kernel + 3 axioms; json/svg families compare the model tree / use-list with what the crate writes, token by token.',
        'technique': 'Lean 4 round-trip proof (encode/decode over a value tree) + translator-pinned schema + token-level differential correspondence',
        'theorems': ['Proofs.C11'],
        'families': [('json', 2000, 40000), ('svg', 1200, 20000), ('cli', 12, 200)],
        'search': (15, 400),
        'rule': 'json: canonical token dump of the real serialisation vs the model tree, and text round trips, on constructed/injected states of both kinds; svg: parsed <use> elements vs the model list; search: serialise -> deserialise -> re-serialise (text, score bits, placements), SVG entries vs independently computed placements and images, and the files the real binary writes',
        'assumptions': ['non-finite parameters are outside the quantifier (JSON has no literal for them)'],
        'trusted': ['float <-> text conversion'],
    },
    'C12': {
        'level_text': 'Proof over R. Discs complete: test <=> the open discs share a point; symmetric; invariant under common rigid motions/reflections. Segments (after the tolerance fix): test <=> not near-parallel (|cross| <= 1e-12 |a||b|) and the 1e-12-extended segments share a point; yes implies points of the true segments within 1e-12(|a|+|b|); complete for non-near-parallel segments sharing a point; symmetric; invariant under orthogonal maps. Polygons: test <=> some such edge pair; coincident copies detected. Convex polygons: for closed strictly convex outlines of either orientation (which every placement of Shape.polygon n is: polygon_convexCW, ConvexOutline.transform) a common strictly interior point, neither outline nested strictly inside the other, forces two edges to share a point (convex_overlap_edges) and hence a positive test when meeting edges are not near-parallel (convex_overlap_detected_oriented). Partial: the angle hypothesis (crossings above the 1e-12 relative tolerance) and not-nestedness of congruent copies stay explicit hypotheses. Constructors and the Mul impls placing a component are regenerated from the source (TieCtor, TieOps).',
        'level_note': 'Trusted: Lean kernel + 3 axioms; pair predicates tied by the bit-exact pair family; tolerance constant regenerated by the translator and pinned.',
        'technique': 'Lean 4 proof (planar geometry over R, convex outlines) + source-to-Lean translation of the pair predicates with tie theorems + bit-exact differential correspondence + separating-axis oracle',
        'theorems': ['Proofs.C12', 'Proofs.C12Convex', 'Proofs.TieDisc', 'Proofs.TieLine', 'Proofs.TieHardShape', 'Proofs.C12Orient', 'Proofs.C12Polygon', 'Proofs.C12Placed', 'Proofs.SrcC12', 'Proofs.TieOps', 'Proofs.TieCtor'],
        'families': [('pair_hard', 4000, 80000), ('mat', 1000, 20000)],
        'search': (12, 300),
        'rule': 'pair: line/atom/shape intersects on placements around contact distance, transforms; search: separating-axis (convex polygons) and disc-distance oracle with 1e-9 tolerance, argument swap, common rigid motion/reflection, aligned special configurations (parallel edges, shared vertices, coincident copies, displacement along an edge direction)',
        'assumptions': ['f64 rounding not modelled'],
        'trusted': ['f64 rounding is not modelled (theorems exact over R; the search evaluates them on the real outputs with the property tolerance 1e-9)'],
    },
    'C13': {
        'level_text': 'Proof over R: uncut energy = 4 eps ((s^2/r^2)^6 - (s^2/r^2)^3) = 4 eps((s/r)^12-(s/r)^6); cut: shifted inside, exactly 0 at and beyond the cutoff; depends on the squared distance only; invariant under common rigid motions; >= -eps with equality iff (s^2/r^2)^3 = 1/2; molecule energy = sum over particle pairs; trimer constants sigma = 2 radius, cutoff 7/2 (generated). Partial: symmetry proved for like particles only; for unlike particles it is FALSE of the code (kernel-decided witness over Q) - known finding F11. LJ2::default / new and the LJ molecule constructors are regenerated from the source (TieCtor).',
        'level_note': 'Trusted: Lean kernel + 3 axioms; LJ2/LJShape2 energy tied by the bit-exact pair family.',
        'technique': 'Lean 4 proof over R + kernel-decided counterexample over Q + source-to-Lean translation of the function bodies with tie theorems + bit-exact differential correspondence',
        'theorems': ['Proofs.C13', 'Proofs.TieLJ', 'Proofs.TieLJShape', 'Proofs.SrcC13', 'Proofs.TieOps', 'Proofs.TieCtor'],
        'families': [('pair_lj', 4000, 80000)],
        'search': (10, 240),
        'rule': 'pair: lj2 energies over 3.5 orders of magnitude in r, sigma, epsilon, cut and uncut, molecule energies under random placements; search: closed-form oracle (powf), zero beyond cutoff, minimum, rigid-motion invariance, symmetry (like and unlike particles separately), molecule = sum over pairs',
        'assumptions': ['f64 rounding not modelled'],
        'trusted': ['f64 rounding is not modelled (theorems exact over R; the search evaluates them on the real outputs with the property tolerance 1e-9)'],
    },
    'C05': {
        'level_text': 'Full proof (over R) for every configuration with kt_start = 0, every (history-dependent) score function and every accept/reject history with non-negative thresholds: the temperature stays 0, an accepted score is never below the current one, the tracked score is non-decreasing along the run and the result is at least the input; for parameter-only scores the score of the returned state is at least that of the input. About the executable optimiser model, which reproduces whole optimise_state runs bit-for-bit from the seed.',
        'level_note': 'Trusted: Lean kernel + 3 axioms; optimiser model tied by bit-exact opt/optc families (scripted recording State and real crystal states, PCG port); real numbers have no NaN/inf: the IEEE behaviour at kt in {+0,-0,NaN} is covered by the guard `!(kt > 0)` being the first test (modelled literally) and by the carrier-generic NaN theorem in C07.',
        'technique': 'Lean 4 induction over optimiser runs (invariant) + source-to-Lean translation of the function bodies with tie theorems + bit-exact differential correspondence of whole runs',
        'theorems': ['Proofs.C05', 'Proofs.TieAccept', 'Proofs.TieBuild', 'Proofs.TieLoopTail', 'Proofs.TieInnerStep', 'Proofs.SrcC05'],
        'families': [('opt', 1500, 30000)],
        'search': (10, 240),
        'rule': 'opt: scripted recording states (explicit outcome lists with ties/invalids, quadratic bowls with forbidden zones) x configuration grid (kt_start 0/positive, kt_finish, kt_ratio incl. >1, steps/inner incl. 0, non-multiples, inner>steps, convergence); optc: real hard/LJ crystal states, 7 groups; non-trivial = run with >= 5 score calls; distinct by request text; search: history monitors on the real optimiser with kt_start = 0',
        'assumptions': ['thresholds are draws from [0,1) (rand Standard f64)', 'f64 rounding not modelled'],
        'trusted': ['rand 0.7.3 / rand_pcg 0.2.1 sampling algorithms are modelled (Model/Rand.lean) and tied by the bit-exact rng family', 'f64 rounding and IEEE special values other than NaN-as-not-equal-to-itself are outside the real-number theorems'],
    },
    'C06': {
        'level_text': 'Full proof for an ARBITRARY carrier (no algebraic law used, so it holds verbatim at f64, bit for bit): after every step the heap is exactly the proposal (accepted) or exactly the heap before it (rejected); a proposal differs from its parent in at most one cell; events chain; the returned heap is the last accepted proposal (the input if none), also on the convergence exit; the tracked score is that proposal\'s score; for parameter-only scores it is the score of the returned state.',
        'level_note': 'Trusted: Lean kernel + propext/Quot.sound; heap model of SharedValue/StandardBasis tied by the bit-exact basis family (set/reset/sample sequences incl. shared cells) and whole-run opt/optc families.',
        'technique': 'Lean 4 induction over optimiser runs for an arbitrary scalar carrier + source-to-Lean translation of the function bodies with tie theorems + bit-exact differential correspondence',
        'theorems': ['Proofs.C06', 'Proofs.TieBasis', 'Proofs.TieInnerStep', 'Proofs.SrcC06'],
        'families': [('basis', 1500, 40000), ('opt', 1500, 30000)],
        'search': (10, 240),
        'rule': 'basis: random set/reset/get/sample/setsampled sequences on up to 5 handles over up to 4 cells (shared cells included); opt/optc as for C05; non-trivial = run with >= 5 score calls / any basis sequence; search: exact-restore, single-parameter and result-is-last-accepted monitors on recorded real histories',
        'assumptions': [],
        'trusted': [],
    },
    'C07': {
        'level_text': 'Proof over R of every deterministic clause (better always accepted, undefined never, equal accepted at every temperature, worse never at kT <= 0, worse by d at kT > 0 accepted iff threshold < exp(-d/kT)), of the probability clause as a Lebesgue-measure statement (volume of accepting thresholds in [0,1) equals exp(-d/kT)), carrier-generic NaN clause, and that each step applies exactly this rule with its own draw, the current score and temperature. The threshold draw is exact: gen::<f64>() = (v >> 11)/2^53 and exactly 2^11*ceil(p*2^53) of the 2^64 raw outputs pass u < p, so the acceptance probability is within 2^-53 above exp(-d/kT) for a uniform raw output (C07Draw; closed form tied to the doubles by the rng unitq requests). Partial: uniformity of the raw output of Pcg64Mcg is trusted. energy_surface / test_acceptance / accept_score are regenerated from the source and proved equal to the model (TieAccept).',
        'level_note': 'Trusted: uniformity of rand\'s Standard f64 and Pcg64Mcg (the stream itself is pinned bit-for-bit by the rng family); Lean kernel + 3 axioms; Mathlib measure theory.',
        'technique': 'Lean 4 proof (real analysis, Lebesgue measure, exact counting of raw outputs) + source-to-Lean translation of the acceptance rule with tie theorems + bit-exact differential correspondence incl. PRNG port',
        'theorems': ['Proofs.C07', 'Proofs.C07Draw', 'Proofs.TieAccept', 'Proofs.TieLoopTail', 'Proofs.SrcC07'],
        'families': [('rng', 400, 10000), ('opt', 1500, 30000)],
        'search': (10, 240),
        'rule': 'rng: raw PCG stream for 64 seeds and the three sampling functions; opt/optc as for C05; search: deterministic Metropolis clauses on every step whose outcome is visible in the recorded vectors, thresholds re-drawn with the real rand crate',
        'assumptions': ['threshold uniform on [0,1)'],
        'trusted': ['rand 0.7.3 / rand_pcg 0.2.1 sampling algorithms are modelled (Model/Rand.lean) and tied by the bit-exact rng family', 'f64 rounding and IEEE special values other than NaN-as-not-equal-to-itself are outside the real-number theorems'],
    },
    'C08': {
        'level_text': 'Proof over R: clamp lands in range; run invariant — if every handled parameter starts inside its range then every proposal and the result keep every handled parameter inside its range and every unhandled parameter unchanged, for any history; generated degrees of freedom and bounds (regenerated from cell.rs/site.rs each run) equal the declared ones (length [0.01,cur], ratio [0.1,cur], angle [pi/6,pi/2] only for oblique cells, x,y in [-1/2,1/2], orientation [0,2pi]); handle addresses distinct; angle unhandled unless Monoclinic; chained stages re-derive contained ranges; no degenerate cell inside the box; every table with any hard shape whose components lie within its positive enclosing radius starts from a state that passes the overlap check with a positive finite score (kernel-decided separation of the initial copies per table, transported to R), and every LJ initial state reports a score. Partial: finiteness of the returned score along a run rests on the score functions (C02/C03) and the NaN clause of C07.',
        'level_note': 'Trusted: translator pvtx.py for bounds (validated by cell dof / site basis / state basis requests observed behaviourally on the crate); Lean kernel + 3 axioms.',
        'technique': 'Lean 4 invariant proof + kernel-decided declared-constants obligations over translator output + source-to-Lean translation of the function bodies with tie theorems + differential correspondence',
        'theorems': ['Proofs.C08', 'Proofs.C08Init', 'Proofs.TieBasis', 'Proofs.DeclBasis', 'Proofs.TieAccept', 'Proofs.SrcC08'],
        'families': [('state', 1500, 30000), ('cell', 1500, 20000), ('site', 1000, 20000), ('opt', 1000, 20000)],
        'search': (12, 300),
        'rule': 'state: 7 groups x shapes x potentials, ops score/params/basis/label/relpos/cartpos incl. from_group initial states; search: range/family monitor on every recorded proposal, chains of 1..4 stages on real states, from_group validity for every group x shape family',
        'assumptions': ['f64 rounding not modelled'],
        'trusted': ['rand 0.7.3 / rand_pcg 0.2.1 sampling algorithms are modelled (Model/Rand.lean) and tied by the bit-exact rng family', 'f64 rounding and IEEE special values other than NaN-as-not-equal-to-itself are outside the real-number theorems'],
    },
    'C14': {
        'level_text': 'Full proof over the reals: the Cartesian map is x*A + y*B with A=(a,0), B=(b cos t, b sin t); periodic_images of a placement within k shells is exactly the list of translates by n*A+m*B over the index set {|n|,|m|<=k} (minus (0,0) unless asked), each once, in order, orientation unchanged; area = |A x B|; corners/centre. The model functions are the same Lean terms that run at Float against the crate.',
        'level_note': 'Trusted: Lean kernel + 3 standard axioms; model of src/cell.rs tied by the bit-exact cell/mat request families (cells injected through the crate Deserialize); f64 rounding outside the theorems (statements are exact over R; the search evaluates them on the real outputs to 1e-12).',
        'technique': 'Lean 4 proof over R of a scalar-polymorphic executable model + source-to-Lean translation of the function bodies with tie theorems + bit-exact differential correspondence',
        'theorems': ['Proofs.C14', 'Proofs.TieCell', 'Proofs.TieImages', 'Proofs.SrcC14'],
        'families': [('cell', 4000, 80000), ('mat', 2000, 40000)],
        'search': (6, 90),
        'rule': ('cell: cells over the optimiser box (40% on faces), 4 families, ops cart/area/ab/center/corners/iso/dof/fromfamily/images with shells -1..6; '
                 'non-trivial = images reply with >= 8 images or any ok reply; distinct by request text; search: linear map, area and image-set oracle on real Cell2 methods'),
        'explanation': 'theorems quantify over all cells, placements and shell counts; correspondence pins the model to Cell2 bit-for-bit',
        'assumptions': ['f64 rounding is not modelled'],
    },
    'C15': {
        'level_text': 'Full proof over the reals: the wrap maps every coordinate into [-1/2,1/2), changes it by an integer, is 1-periodic and the identity on the cell; a site yields exactly one placement per operation with linear part L_k*Rot(theta), position in the canonical cell and congruent to g_k(x,y) mod Z^2; lattice-shifted coordinates / orientations +2*pi*j give the same placements (integrality of every table operation decided in the kernel on the regenerated tables). Wrap constants (period 1, offset -1/2) are regenerated from the source and pinned by a decidable obligation.',
        'level_note': 'Trusted: Lean kernel + 3 standard axioms; model of site.rs/transform.rs tied by bit-exact wrap/site/mat families incl. an exhaustive edge set (+-1/2, +-1/2 +- ulp, +-0, tiny, huge) for the double fmod; f64 rounding outside the theorems.',
        'technique': 'Lean 4 proof over R (floor/fract arithmetic) + kernel decision on generated tables + source-to-Lean translation of the function bodies with tie theorems + bit-exact differential correspondence',
        'theorems': ['Proofs.C15', 'Proofs.TieWrap', 'Proofs.TieSite', 'Proofs.SrcC15'],
        'families': [('wrap', 3000, 60000), ('site', 4000, 80000), ('mat', 1000, 20000)],
        'search': (6, 90),
        'rule': ('wrap: exhaustive edge set then random coordinates; site: all 7 groups, coordinates on/near the bounds 30%, lattice-shifted coordinates; '
                 'non-trivial = site of a group of order >= 2 (site), any ok reply (wrap); distinct by request text; search: count / canonical cell / congruence / linear part / lattice-invariance oracle on real positions()'),
        'explanation': 'for-all-reals statements proved; edge behaviour of the float wrap covered by the exhaustive edge set in the wrap family',
        'assumptions': ['f64 rounding is not modelled (range claim checked exhaustively on the edge set at Float)'],
    },
    'C16': {
        'level_text': 'Full proof. The property quantifies over a finite space (7 tables, <=4 operations, <=16 products each); it is decided completely by the Lean kernel (decide +kernel at exact Rat) on tables regenerated from the current text of src/wallpaper.rs and parsed by the model parser, against the ITA reference; lifted to explicitly quantified theorems. The parser the tables are read with is the regenerated from_operations (TieParse).',
        'level_note': 'Trusted: Lean kernel + 3 standard axioms; reference tables typed from International Tables A; translator pvtx.py (validated by the tables family: generated tables vs get_wallpaper_group + WyckoffSite::new on the real crate); model parser tied to from_operations by the parse family (bit-exact).',
        'technique': 'Lean 4 kernel decision (decide +kernel) over translator-regenerated tables + source-to-Lean translation of the parser with a tie theorem + differential correspondence',
        'theorems': ['Proofs.C16', 'Proofs.TieParse'],
        'families': [('tables', 14, 14), ('parse', 4000, 60000)],
        'search': (5, 20),
        'rule': ('tables: every CLI variant plus unknown names, reply ok = non-trivial; parse: grammar/mutated/arbitrary strings, '
                 'non-trivial = ok with >=2 non-zero entries or an error other than tooFew; distinct by request text; '
                 'search: the 7 real tables against the reference plane groups (exhaustive: 7 groups, all operation pairs)'),
        'explanation': 'finite space decided completely in the Lean kernel on the regenerated tables; the tables/parse families tie the generated '
                       'tables and the model parser to get_wallpaper_group / WyckoffSite::new / from_operations',
        'assumptions': ['reference general positions typed in from International Tables A (Spec/Groups.lean)'],
    },
    'C17': {
        'level_text': 'Full proof of the grammar clause (every string of the inductively defined grammar parses to the affine map its expression denotes, over any field) and of totality/error clauses for all strings, about a character-level model of from_operations. The WHOLE body of from_operations (trim, split, dimension check, both loops, matrix writes, every bail) is regenerated from the source on every run and proved equal to the model parser for every input string and every scalar carrier (TieParse.from_operations_tie, core-only).',
        'level_note': 'Trusted: Lean kernel + 3 standard axioms; the model parser is tied to Transform2::from_operations by the translation tie (TieParse) and by bit-exact differential correspondence on grammar, mutated and arbitrary Unicode strings; f64 rounding of d/e outside the theorem; Rust-level absence of panics rests on the modelled control flow (index sites guarded by the dimension check).',
        'technique': 'Lean 4 structural induction over an inductive grammar + source-to-Lean translation of the whole parser with a tie theorem + differential correspondence',
        'theorems': ['Proofs.C17', 'Proofs.TieParse', 'Proofs.SrcC17'],
        'families': [('parse', 20000, 400000)],
        'search': (8, 120),
        'rule': ('parse: 60% grammar strings (all term orders/signs/spacing), 20% mutated, 10% alphabet noise, 10% arbitrary Unicode; '
                 'non-trivial = ok with >=2 non-zero entries or an error other than tooFew; distinct by request text; '
                 'search: grammar strings with independently computed denotation, evaluated at 5 probe points on the real transform'),
        'explanation': 'grammar_sound is proved for every string of the grammar over any field; the parse family pins the model parser to the Rust function bit-for-bit',
        'assumptions': ['f64 rounding of the single division d/e is outside the theorem (entries in {0,±1} are exact)'],
    },
    'C18': {
        'level_text': 'Full proof over R: every step of (0-based) loop l runs at kt_start * factor^l (constant within a loop, one multiplication between loops); factor = 1 - kt_ratio when a ratio is given; otherwise kt_start * factor^L = kt_finish for the L = steps/inner_steps loops of the run, so the last loop runs at kt_finish/factor; a zero start stays zero.',
        'level_note': 'Trusted: Lean kernel + 3 axioms; Real.rpow for powf; build/optimise model tied by bit-exact opt runs (the acceptance pattern of every run depends on kt per loop).',
        'technique': 'Lean 4 proof (Real.rpow) + run invariant + source-to-Lean translation of the function bodies with tie theorems + bit-exact differential correspondence',
        'theorems': ['Proofs.C18', 'Proofs.TieBuild', 'Proofs.TieLoopTail', 'Proofs.SrcC18'],
        'families': [('opt', 1500, 30000)],
        'search': (10, 240),
        'rule': 'opt as for C05; search: schedule monitor — for every visibly decided worse move the decision must equal thr < exp(-d/kT_l) with kT_l from the SPECIFIED schedule and thr re-drawn with the real rand crate (multi-loop configurations, score differences of the order of kT)',
        'assumptions': ['f64 rounding not modelled'],
        'trusted': ['rand 0.7.3 / rand_pcg 0.2.1 sampling algorithms are modelled (Model/Rand.lean) and tied by the bit-exact rng family', 'f64 rounding and IEEE special values other than NaN-as-not-equal-to-itself are outside the real-number theorems'],
    },
    'C19': {
        'level_text': 'Full proof over R: a sample is within step*range/2 of the value, clamping never moves further from an in-range value, the adaptive ratio stays in (0,1] for every rejection history, hence every proposal of every loop changes exactly one cell by at most max_step_size*(max-min)/2.',
        'level_note': 'Trusted: Lean kernel + 3 axioms; draw in [-1/2,1/2) (rand gen_range, pinned by rng family).',
        'technique': 'Lean 4 invariant proof over runs + source-to-Lean translation of the function bodies with tie theorems + bit-exact differential correspondence',
        'theorems': ['Proofs.C19', 'Proofs.C07Draw', 'Proofs.TieBasis', 'Proofs.DeclBasis', 'Proofs.TieLoopTail', 'Proofs.TieInnerStep', 'Proofs.SrcC19'],
        'families': [('basis', 1000, 20000), ('opt', 1500, 30000), ('rng', 300, 6000)],
        'search': (10, 240),
        'rule': 'opt as for C05 with multi-loop configurations and all rejection rates; search: per-proposal step-bound monitor on recorded real histories',
        'assumptions': ['f64 rounding not modelled'],
        'trusted': ['rand 0.7.3 / rand_pcg 0.2.1 sampling algorithms are modelled (Model/Rand.lean) and tied by the bit-exact rng family', 'f64 rounding and IEEE special values other than NaN-as-not-equal-to-itself are outside the real-number theorems'],
    },
    'C20': {
        'needs_cli': True,
        'level_text': 'Proof: termination is structural; build never yields inner_steps = 0; without convergence exactly (steps/inner)*inner proposals (<= steps, > steps - inner); any run evaluates whole loops and at most steps; the run with a threshold is a prefix of the run without; an early exit implies the last six loops each gained less than the threshold; from a valid input no panic site of optimise_state is reachable. Partial: the CLI clause (exit status / files) is checked by the cli correspondence, argument parsing (structopt/clap) is trusted.',
        'level_note': 'Trusted: panic sites of optimise_state are enumerated by hand in the model (PanicSite) and tied by the opt family comparing panic/ok outcomes incl. panic site names; Lean kernel + 3 axioms.',
        'technique': 'Lean 4 structural induction over the optimiser loops + source-to-Lean translation of the function bodies with tie theorems + differential correspondence of outcomes',
        'theorems': ['Proofs.C20', 'Proofs.TieBuild', 'Proofs.TieLoopTail', 'Proofs.TieBasis', 'Proofs.SrcC20'],
        'families': [('opt', 2000, 40000)],
        'search': (10, 240),
        'rule': 'opt as for C05 over steps/inner in {0,1,2,3,7,...} incl. non-multiples and inner > steps; search: work-bound and six-loop monitors, prefix oracle (same run with and without threshold), catch_unwind around every run',
        'assumptions': [],
        'trusted': [],
    },
}
