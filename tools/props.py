"""props — per-property wiring: theorem modules Th(P), request families Co(P), search budget,
evidence rule (DESIGN.md appendix B)."""

# ---------------------------------------------------------------- reply classification helpers

ZERO = '0000000000000000'


def _parse_nontrivial(q, a):
    # a grammar string with at least two non-zero entries, or an error other than tooFew
    if a.startswith('ok '):
        return sum(1 for t in a.split()[1:] if t not in (ZERO, '8000000000000000')) >= 2
    return a.startswith('err') and not a.startswith('err tooFew')


def _tables_nontrivial(q, a):
    return a.startswith('ok ')


def _ok_nontrivial(q, a):
    return a.startswith('ok')


def _cell_nontrivial(q, a):
    # images with at least one shell, or any other successful cell operation on a non-right angle
    t = q.split(' ')
    if t[1] == 'images':
        return a.startswith('ok') and int(a.split(' ')[1]) >= 8
    return a.startswith('ok')


def _site_nontrivial(q, a):
    # a site of a group of order >= 2
    t = q.split(' ')
    return a.startswith('ok') and len(t) > 2 and t[2].isdigit() and int(t[2]) >= 2


def _opt_nontrivial(q, a):
    # a run with at least a handful of score calls
    t = a.split(' ')
    return t[0] == 'ok' and int(t[1]) >= 5


NONTRIVIAL = {
    'parse': _parse_nontrivial,
    'tables': _tables_nontrivial,
    'cell': _cell_nontrivial,
    'site': _site_nontrivial,
    'opt': _opt_nontrivial,
}


def _cls2(q, a):
    return ' '.join(a.split(' ')[:2]) if a.startswith('err') else a.split(' ')[0]


def _cls_op(q, a):
    t = q.split(' ')
    return (t[1] if len(t) > 1 else '?') + ':' + (a.split(' ')[0] if a else '')


CLASSIFY = {
    'parse': _cls2,
    'tables': _cls2,
    'mat': _cls_op, 'wrap': _cls_op, 'cell': _cls_op, 'site': _cls_op, 'rng': _cls_op,
    'basis': _cls_op, 'opt': _cls_op,
}


def tolerant_equal(fam, q, a, b):
    """Tier-2 agreement (DESIGN.md §2.3): float-noise tolerance for families where the property
    itself is stated up to floating-point accuracy. Tier 1 (bit equality) is tried first by the
    caller; a family is listed here only when a harmless re-association of the crate's arithmetic
    must not raise an alarm."""
    tol = TOLERANT.get(fam)
    if tol is None:
        return False
    return tol(q, a, b)


TOLERANT = {}

# ---------------------------------------------------------------- properties

COMMON_TRUST = []
SOURCE_COMMITS = []
NOT_CLAIMED = {}

PROPS = {
    'C14': {
        'level_text': 'Full proof over the reals: the Cartesian map is x*A + y*B with A=(a,0), B=(b cos t, b sin t); periodic_images of a placement within k shells is exactly the list of translates by n*A+m*B over the index set {|n|,|m|<=k} (minus (0,0) unless asked), each once, in order, orientation unchanged; area = |A x B|; corners/centre. The model functions are the same Lean terms that run at Float against the crate.',
        'level_note': 'Trusted: Lean kernel + 3 standard axioms; model of src/cell.rs tied by the bit-exact cell/mat request families (cells injected through the crate Deserialize); f64 rounding outside the theorems (statements are exact over R; the search evaluates them on the real outputs to 1e-12).',
        'technique': 'Lean 4 proof over R of a scalar-polymorphic executable model + bit-exact differential correspondence',
        'theorems': ['Proofs.C14'],
        'families': [('cell', 4000, 80000), ('mat', 2000, 40000)],
        'search': (6, 90),
        'rule': ('cell: cells over the optimiser box (40% on faces), 4 families, ops cart/area/ab/center/corners/iso/dof/fromfamily/images with shells -1..6; '
                 'non-trivial = images reply with >= 8 images or any ok reply; distinct by request text; search: linear map, area and image-set oracle on real Cell2 methods'),
        'explanation': 'theorems quantify over all cells, placements and shell counts; correspondence pins the model to Cell2 bit-for-bit',
        'assumptions': ['f64 rounding is not modelled'],
    },
    'C15': {
        'level_text': 'Full proof over the reals: the wrap maps every coordinate into [-1/2,1/2), changes it by an integer, is 1-periodic and the identity on the cell; a site yields exactly one placement per operation with linear part L_k*Rot(theta), position in the canonical cell and congruent to g_k(x,y) mod Z^2; lattice-shifted coordinates / orientations +2*pi*j give the same placements (integrality of every table operation decided in the kernel on the regenerated tables). Wrap constants (period 1, offset -1/2) are regenerated from the source and pinned by a decidable obligation.',
        'level_note': 'Trusted: Lean kernel + 3 standard axioms; model of site.rs/transform.rs tied by bit-exact wrap/site/mat families incl. an exhaustive edge set (+-1/2, +-1/2 +- ulp, +-0, tiny, huge) for the double fmod; f64 rounding outside the theorems.',
        'technique': 'Lean 4 proof over R (floor/fract arithmetic) + kernel decision on generated tables + bit-exact differential correspondence',
        'theorems': ['Proofs.C15'],
        'families': [('wrap', 3000, 60000), ('site', 4000, 80000), ('mat', 1000, 20000)],
        'search': (6, 90),
        'rule': ('wrap: exhaustive edge set then random coordinates; site: all 7 groups, coordinates on/near the bounds 30%, lattice-shifted coordinates; '
                 'non-trivial = site of a group of order >= 2 (site), any ok reply (wrap); distinct by request text; search: count / canonical cell / congruence / linear part / lattice-invariance oracle on real positions()'),
        'explanation': 'for-all-reals statements proved; edge behaviour of the float wrap covered by the exhaustive edge set in the wrap family',
        'assumptions': ['f64 rounding is not modelled (range claim checked exhaustively on the edge set at Float)'],
    },
    'C16': {
        'level_text': 'Full proof. The property quantifies over a finite space (7 tables, <=4 operations, <=16 products each); it is decided completely by the Lean kernel (decide +kernel at exact Rat) on tables regenerated from the current text of src/wallpaper.rs and parsed by the model parser, against the ITA reference; lifted to explicitly quantified theorems.',
        'level_note': 'Trusted: Lean kernel + 3 standard axioms; reference tables typed from International Tables A; translator pvtx.py (validated by the tables family: generated tables vs get_wallpaper_group + WyckoffSite::new on the real crate); model parser tied to from_operations by the parse family (bit-exact).',
        'technique': 'Lean 4 kernel decision (decide +kernel) over translator-regenerated tables + differential correspondence',
        'theorems': ['Proofs.C16'],
        'families': [('tables', 14, 14), ('parse', 4000, 60000)],
        'search': (5, 20),
        'rule': ('tables: every CLI variant plus unknown names, reply ok = non-trivial; parse: grammar/mutated/arbitrary strings, '
                 'non-trivial = ok with >=2 non-zero entries or an error other than tooFew; distinct by request text; '
                 'search: the 7 real tables against the reference plane groups (exhaustive: 7 groups, all operation pairs)'),
        'explanation': 'finite space decided completely in the Lean kernel on the regenerated tables; the tables/parse families tie the generated '
                       'tables and the model parser to get_wallpaper_group / WyckoffSite::new / from_operations',
        'assumptions': ['reference general positions typed in from International Tables A (Spec/Groups.lean)'],
    },
    'C17': {
        'level_text': 'Full proof of the grammar clause (every string of the inductively defined grammar parses to the affine map its expression denotes, over any field) and of totality/error clauses for all strings, about a character-level model of from_operations.',
        'level_note': 'Trusted: Lean kernel + 3 standard axioms; the model parser is tied to Transform2::from_operations by bit-exact differential correspondence on grammar, mutated and arbitrary Unicode strings; f64 rounding of d/e outside the theorem; Rust-level absence of panics rests on the modelled control flow (index sites guarded by the dimension check).',
        'technique': 'Lean 4 structural induction over an inductive grammar + differential correspondence',
        'theorems': ['Proofs.C17'],
        'families': [('parse', 20000, 400000)],
        'search': (8, 120),
        'rule': ('parse: 60% grammar strings (all term orders/signs/spacing), 20% mutated, 10% alphabet noise, 10% arbitrary Unicode; '
                 'non-trivial = ok with >=2 non-zero entries or an error other than tooFew; distinct by request text; '
                 'search: grammar strings with independently computed denotation, evaluated at 5 probe points on the real transform'),
        'explanation': 'grammar_sound is proved for every string of the grammar over any field; the parse family pins the model parser to the Rust function bit-for-bit',
        'assumptions': ['f64 rounding of the single division d/e is outside the theorem (entries in {0,±1} are exact)'],
    },
}
