"""props — per-property wiring: theorem modules Th(P), request families Co(P), search budget,
evidence rule (DESIGN.md appendix B)."""

# ---------------------------------------------------------------- reply classification helpers

ZERO = '0000000000000000'


def _parse_nontrivial(q, a):
    # a grammar string with at least two non-zero entries, or an error other than tooFew
    if a.startswith('ok '):
        return sum(1 for t in a.split()[1:] if t not in (ZERO, '8000000000000000')) >= 2
    return a.startswith('err') and not a.startswith('err tooFew')


def _tables_nontrivial(q, a):
    return a.startswith('ok ')


def _ok_nontrivial(q, a):
    return a.startswith('ok')


def _cell_nontrivial(q, a):
    # images with at least one shell, or any other successful cell operation on a non-right angle
    t = q.split(' ')
    if t[1] == 'images':
        return a.startswith('ok') and int(a.split(' ')[1]) >= 8
    return a.startswith('ok')


def _site_nontrivial(q, a):
    # a site of a group of order >= 2
    t = q.split(' ')
    return a.startswith('ok') and len(t) > 2 and t[2].isdigit() and int(t[2]) >= 2


def _opt_nontrivial(q, a):
    # a run with at least a handful of score calls
    t = a.split(' ')
    return t[0] == 'ok' and int(t[1]) >= 5


NONTRIVIAL = {
    'parse': _parse_nontrivial,
    'tables': _tables_nontrivial,
    'cell': _cell_nontrivial,
    'site': _site_nontrivial,
    'opt': _opt_nontrivial,
}


def _cls2(q, a):
    return ' '.join(a.split(' ')[:2]) if a.startswith('err') else a.split(' ')[0]


def _cls_op(q, a):
    t = q.split(' ')
    return (t[1] if len(t) > 1 else '?') + ':' + (a.split(' ')[0] if a else '')


CLASSIFY = {
    'parse': _cls2,
    'tables': _cls2,
    'mat': _cls_op, 'wrap': _cls_op, 'cell': _cls_op, 'site': _cls_op, 'rng': _cls_op,
    'basis': _cls_op, 'opt': _cls_op,
}


def tolerant_equal(fam, q, a, b):
    """Tier-2 agreement (DESIGN.md §2.3): float-noise tolerance for families where the property
    itself is stated up to floating-point accuracy. Tier 1 (bit equality) is tried first by the
    caller; a family is listed here only when a harmless re-association of the crate's arithmetic
    must not raise an alarm."""
    tol = TOLERANT.get(fam)
    if tol is None:
        return False
    return tol(q, a, b)


TOLERANT = {}

# ---------------------------------------------------------------- properties

COMMON_TRUST = []
SOURCE_COMMITS = []
NOT_CLAIMED = {}

PROPS = {
    'C05': {
        'level_text': 'Full proof (over R) for every configuration with kt_start = 0, every (history-dependent) score function and every accept/reject history with non-negative thresholds: the temperature stays 0, an accepted score is never below the current one, the tracked score is non-decreasing along the run and the result is at least the input; for parameter-only scores the score of the returned state is at least that of the input. About the executable optimiser model, which reproduces whole optimise_state runs bit-for-bit from the seed.',
        'level_note': 'Trusted: Lean kernel + 3 axioms; optimiser model tied by bit-exact opt/optc families (scripted recording State and real crystal states, PCG port); real numbers have no NaN/inf: the IEEE behaviour at kt in {+0,-0,NaN} is covered by the guard `!(kt > 0)` being the first test (modelled literally) and by the carrier-generic NaN theorem in C07.',
        'technique': 'Lean 4 induction over optimiser runs (invariant) + bit-exact differential correspondence of whole runs',
        'theorems': ['Proofs.C05'],
        'families': [('opt', 1500, 30000), ('optc', 250, 5000)],
        'search': (10, 240),
        'rule': 'opt: scripted recording states (explicit outcome lists with ties/invalids, quadratic bowls with forbidden zones) x configuration grid (kt_start 0/positive, kt_finish, kt_ratio incl. >1, steps/inner incl. 0, non-multiples, inner>steps, convergence); optc: real hard/LJ crystal states, 7 groups; non-trivial = run with >= 5 score calls; distinct by request text; search: history monitors on the real optimiser with kt_start = 0',
        'assumptions': ['thresholds are draws from [0,1) (rand Standard f64)', 'f64 rounding not modelled'],
        'trusted': ['rand 0.7.3 / rand_pcg 0.2.1 sampling algorithms are modelled (Model/Rand.lean) and tied by the bit-exact rng family', 'f64 rounding and IEEE special values other than NaN-as-not-equal-to-itself are outside the real-number theorems'],
    },
    'C06': {
        'level_text': 'Full proof for an ARBITRARY carrier (no algebraic law used, so it holds verbatim at f64, bit for bit): after every step the heap is exactly the proposal (accepted) or exactly the heap before it (rejected); a proposal differs from its parent in at most one cell; events chain; the returned heap is the last accepted proposal (the input if none), also on the convergence exit; the tracked score is that proposal\'s score; for parameter-only scores it is the score of the returned state.',
        'level_note': 'Trusted: Lean kernel + propext/Quot.sound; heap model of SharedValue/StandardBasis tied by the bit-exact basis family (set/reset/sample sequences incl. shared cells) and whole-run opt/optc families.',
        'technique': 'Lean 4 induction over optimiser runs for an arbitrary scalar carrier + bit-exact differential correspondence',
        'theorems': ['Proofs.C06'],
        'families': [('basis', 1500, 40000), ('opt', 1500, 30000), ('optc', 250, 5000)],
        'search': (10, 240),
        'rule': 'basis: random set/reset/get/sample/setsampled sequences on up to 5 handles over up to 4 cells (shared cells included); opt/optc as for C05; non-trivial = run with >= 5 score calls / any basis sequence; search: exact-restore, single-parameter and result-is-last-accepted monitors on recorded real histories',
        'assumptions': [],
        'trusted': [],
    },
    'C07': {
        'level_text': 'Proof over R of every deterministic clause (better always accepted, undefined never, equal accepted at every temperature, worse never at kT <= 0, worse by d at kT > 0 accepted iff threshold < exp(-d/kT)), of the probability clause as a Lebesgue-measure statement (volume of accepting thresholds in [0,1) equals exp(-d/kT)), carrier-generic NaN clause, and that each step applies exactly this rule with its own draw, the current score and temperature. Partial: that the threshold is uniform on [0,1) is trusted (rand).',
        'level_note': 'Trusted: uniformity of rand\'s Standard f64 and Pcg64Mcg (the stream itself is pinned bit-for-bit by the rng family); Lean kernel + 3 axioms; Mathlib measure theory.',
        'technique': 'Lean 4 proof (real analysis + Lebesgue measure) + bit-exact differential correspondence incl. PRNG port',
        'theorems': ['Proofs.C07'],
        'families': [('rng', 400, 10000), ('opt', 1500, 30000), ('optc', 250, 5000)],
        'search': (10, 240),
        'rule': 'rng: raw PCG stream for 64 seeds and the three sampling functions; opt/optc as for C05; search: deterministic Metropolis clauses on every step whose outcome is visible in the recorded vectors, thresholds re-drawn with the real rand crate',
        'assumptions': ['threshold uniform on [0,1)'],
        'trusted': ['rand 0.7.3 / rand_pcg 0.2.1 sampling algorithms are modelled (Model/Rand.lean) and tied by the bit-exact rng family', 'f64 rounding and IEEE special values other than NaN-as-not-equal-to-itself are outside the real-number theorems'],
    },
    'C08': {
        'level_text': 'Proof over R: clamp lands in range; run invariant — if every handled parameter starts inside its range then every proposal and the result keep every handled parameter inside its range and every unhandled parameter unchanged, for any history; generated degrees of freedom and bounds (regenerated from cell.rs/site.rs each run) equal the declared ones (length [0.01,cur], ratio [0.1,cur], angle [pi/6,pi/2] only for oblique cells, x,y in [-1/2,1/2], orientation [0,2pi]); handle addresses distinct; angle unhandled unless Monoclinic; chained stages re-derive contained ranges; no degenerate cell inside the box. Partial: finiteness of the returned score rests on the score functions (C02/C03) and the NaN clause of C07.',
        'level_note': 'Trusted: translator pvtx.py for bounds (validated by cell dof / site basis / state basis requests observed behaviourally on the crate); Lean kernel + 3 axioms.',
        'technique': 'Lean 4 invariant proof + kernel-decided declared-constants obligations over translator output + differential correspondence',
        'theorems': ['Proofs.C08'],
        'families': [('state', 1500, 30000), ('cell', 1500, 20000), ('site', 1000, 20000), ('opt', 1000, 20000), ('optc', 250, 5000)],
        'search': (12, 300),
        'rule': 'state: 7 groups x shapes x potentials, ops score/params/basis/label/relpos/cartpos incl. from_group initial states; search: range/family monitor on every recorded proposal, chains of 1..4 stages on real states, from_group validity for every group x shape family',
        'assumptions': ['f64 rounding not modelled'],
        'trusted': ['rand 0.7.3 / rand_pcg 0.2.1 sampling algorithms are modelled (Model/Rand.lean) and tied by the bit-exact rng family', 'f64 rounding and IEEE special values other than NaN-as-not-equal-to-itself are outside the real-number theorems'],
    },
    'C14': {
        'level_text': 'Full proof over the reals: the Cartesian map is x*A + y*B with A=(a,0), B=(b cos t, b sin t); periodic_images of a placement within k shells is exactly the list of translates by n*A+m*B over the index set {|n|,|m|<=k} (minus (0,0) unless asked), each once, in order, orientation unchanged; area = |A x B|; corners/centre. The model functions are the same Lean terms that run at Float against the crate.',
        'level_note': 'Trusted: Lean kernel + 3 standard axioms; model of src/cell.rs tied by the bit-exact cell/mat request families (cells injected through the crate Deserialize); f64 rounding outside the theorems (statements are exact over R; the search evaluates them on the real outputs to 1e-12).',
        'technique': 'Lean 4 proof over R of a scalar-polymorphic executable model + bit-exact differential correspondence',
        'theorems': ['Proofs.C14'],
        'families': [('cell', 4000, 80000), ('mat', 2000, 40000)],
        'search': (6, 90),
        'rule': ('cell: cells over the optimiser box (40% on faces), 4 families, ops cart/area/ab/center/corners/iso/dof/fromfamily/images with shells -1..6; '
                 'non-trivial = images reply with >= 8 images or any ok reply; distinct by request text; search: linear map, area and image-set oracle on real Cell2 methods'),
        'explanation': 'theorems quantify over all cells, placements and shell counts; correspondence pins the model to Cell2 bit-for-bit',
        'assumptions': ['f64 rounding is not modelled'],
    },
    'C15': {
        'level_text': 'Full proof over the reals: the wrap maps every coordinate into [-1/2,1/2), changes it by an integer, is 1-periodic and the identity on the cell; a site yields exactly one placement per operation with linear part L_k*Rot(theta), position in the canonical cell and congruent to g_k(x,y) mod Z^2; lattice-shifted coordinates / orientations +2*pi*j give the same placements (integrality of every table operation decided in the kernel on the regenerated tables). Wrap constants (period 1, offset -1/2) are regenerated from the source and pinned by a decidable obligation.',
        'level_note': 'Trusted: Lean kernel + 3 standard axioms; model of site.rs/transform.rs tied by bit-exact wrap/site/mat families incl. an exhaustive edge set (+-1/2, +-1/2 +- ulp, +-0, tiny, huge) for the double fmod; f64 rounding outside the theorems.',
        'technique': 'Lean 4 proof over R (floor/fract arithmetic) + kernel decision on generated tables + bit-exact differential correspondence',
        'theorems': ['Proofs.C15'],
        'families': [('wrap', 3000, 60000), ('site', 4000, 80000), ('mat', 1000, 20000)],
        'search': (6, 90),
        'rule': ('wrap: exhaustive edge set then random coordinates; site: all 7 groups, coordinates on/near the bounds 30%, lattice-shifted coordinates; '
                 'non-trivial = site of a group of order >= 2 (site), any ok reply (wrap); distinct by request text; search: count / canonical cell / congruence / linear part / lattice-invariance oracle on real positions()'),
        'explanation': 'for-all-reals statements proved; edge behaviour of the float wrap covered by the exhaustive edge set in the wrap family',
        'assumptions': ['f64 rounding is not modelled (range claim checked exhaustively on the edge set at Float)'],
    },
    'C16': {
        'level_text': 'Full proof. The property quantifies over a finite space (7 tables, <=4 operations, <=16 products each); it is decided completely by the Lean kernel (decide +kernel at exact Rat) on tables regenerated from the current text of src/wallpaper.rs and parsed by the model parser, against the ITA reference; lifted to explicitly quantified theorems.',
        'level_note': 'Trusted: Lean kernel + 3 standard axioms; reference tables typed from International Tables A; translator pvtx.py (validated by the tables family: generated tables vs get_wallpaper_group + WyckoffSite::new on the real crate); model parser tied to from_operations by the parse family (bit-exact).',
        'technique': 'Lean 4 kernel decision (decide +kernel) over translator-regenerated tables + differential correspondence',
        'theorems': ['Proofs.C16'],
        'families': [('tables', 14, 14), ('parse', 4000, 60000)],
        'search': (5, 20),
        'rule': ('tables: every CLI variant plus unknown names, reply ok = non-trivial; parse: grammar/mutated/arbitrary strings, '
                 'non-trivial = ok with >=2 non-zero entries or an error other than tooFew; distinct by request text; '
                 'search: the 7 real tables against the reference plane groups (exhaustive: 7 groups, all operation pairs)'),
        'explanation': 'finite space decided completely in the Lean kernel on the regenerated tables; the tables/parse families tie the generated '
                       'tables and the model parser to get_wallpaper_group / WyckoffSite::new / from_operations',
        'assumptions': ['reference general positions typed in from International Tables A (Spec/Groups.lean)'],
    },
    'C17': {
        'level_text': 'Full proof of the grammar clause (every string of the inductively defined grammar parses to the affine map its expression denotes, over any field) and of totality/error clauses for all strings, about a character-level model of from_operations.',
        'level_note': 'Trusted: Lean kernel + 3 standard axioms; the model parser is tied to Transform2::from_operations by bit-exact differential correspondence on grammar, mutated and arbitrary Unicode strings; f64 rounding of d/e outside the theorem; Rust-level absence of panics rests on the modelled control flow (index sites guarded by the dimension check).',
        'technique': 'Lean 4 structural induction over an inductive grammar + differential correspondence',
        'theorems': ['Proofs.C17'],
        'families': [('parse', 20000, 400000)],
        'search': (8, 120),
        'rule': ('parse: 60% grammar strings (all term orders/signs/spacing), 20% mutated, 10% alphabet noise, 10% arbitrary Unicode; '
                 'non-trivial = ok with >=2 non-zero entries or an error other than tooFew; distinct by request text; '
                 'search: grammar strings with independently computed denotation, evaluated at 5 probe points on the real transform'),
        'explanation': 'grammar_sound is proved for every string of the grammar over any field; the parse family pins the model parser to the Rust function bit-for-bit',
        'assumptions': ['f64 rounding of the single division d/e is outside the theorem (entries in {0,±1} are exact)'],
    },
    'C18': {
        'level_text': 'Full proof over R: every step of (0-based) loop l runs at kt_start * factor^l (constant within a loop, one multiplication between loops); factor = 1 - kt_ratio when a ratio is given; otherwise kt_start * factor^L = kt_finish for the L = steps/inner_steps loops of the run, so the last loop runs at kt_finish/factor; a zero start stays zero.',
        'level_note': 'Trusted: Lean kernel + 3 axioms; Real.rpow for powf; build/optimise model tied by bit-exact opt runs (the acceptance pattern of every run depends on kt per loop).',
        'technique': 'Lean 4 proof (Real.rpow) + run invariant + bit-exact differential correspondence',
        'theorems': ['Proofs.C18'],
        'families': [('opt', 1500, 30000)],
        'search': (10, 240),
        'rule': 'opt as for C05; search: schedule monitor — for every visibly decided worse move the decision must equal thr < exp(-d/kT_l) with kT_l from the SPECIFIED schedule and thr re-drawn with the real rand crate (multi-loop configurations, score differences of the order of kT)',
        'assumptions': ['f64 rounding not modelled'],
        'trusted': ['rand 0.7.3 / rand_pcg 0.2.1 sampling algorithms are modelled (Model/Rand.lean) and tied by the bit-exact rng family', 'f64 rounding and IEEE special values other than NaN-as-not-equal-to-itself are outside the real-number theorems'],
    },
    'C19': {
        'level_text': 'Full proof over R: a sample is within step*range/2 of the value, clamping never moves further from an in-range value, the adaptive ratio stays in (0,1] for every rejection history, hence every proposal of every loop changes exactly one cell by at most max_step_size*(max-min)/2.',
        'level_note': 'Trusted: Lean kernel + 3 axioms; draw in [-1/2,1/2) (rand gen_range, pinned by rng family).',
        'technique': 'Lean 4 invariant proof over runs + bit-exact differential correspondence',
        'theorems': ['Proofs.C19'],
        'families': [('basis', 1000, 20000), ('opt', 1500, 30000), ('optc', 250, 5000)],
        'search': (10, 240),
        'rule': 'opt as for C05 with multi-loop configurations and all rejection rates; search: per-proposal step-bound monitor on recorded real histories',
        'assumptions': ['f64 rounding not modelled'],
        'trusted': ['rand 0.7.3 / rand_pcg 0.2.1 sampling algorithms are modelled (Model/Rand.lean) and tied by the bit-exact rng family', 'f64 rounding and IEEE special values other than NaN-as-not-equal-to-itself are outside the real-number theorems'],
    },
    'C20': {
        'level_text': 'Proof: termination is structural; build never yields inner_steps = 0; without convergence exactly (steps/inner)*inner proposals (<= steps, > steps - inner); any run evaluates whole loops and at most steps; the run with a threshold is a prefix of the run without; an early exit implies the last six loops each gained less than the threshold; from a valid input no panic site of optimise_state is reachable. Partial: the CLI clause (exit status / files) is checked by the cli correspondence, argument parsing (structopt/clap) is trusted.',
        'level_note': 'Trusted: panic sites of optimise_state are enumerated by hand in the model (PanicSite) and tied by the opt family comparing panic/ok outcomes incl. panic site names; Lean kernel + 3 axioms.',
        'technique': 'Lean 4 structural induction over the optimiser loops + differential correspondence of outcomes',
        'theorems': ['Proofs.C20'],
        'families': [('opt', 2000, 40000), ('optc', 250, 5000)],
        'search': (10, 240),
        'rule': 'opt as for C05 over steps/inner in {0,1,2,3,7,...} incl. non-multiples and inner > steps; search: work-bound and six-loop monitors, prefix oracle (same run with and without threshold), catch_unwind around every run',
        'assumptions': [],
        'trusted': [],
    },
}
