"""props — per-property wiring: theorem modules Th(P), request families Co(P), search budget,
evidence rule (DESIGN.md appendix B)."""

# ---------------------------------------------------------------- reply classification helpers

ZERO = '0000000000000000'


def _parse_nontrivial(q, a):
    # a grammar string with at least two non-zero entries, or an error other than tooFew
    if a.startswith('ok '):
        return sum(1 for t in a.split()[1:] if t not in (ZERO, '8000000000000000')) >= 2
    return a.startswith('err') and not a.startswith('err tooFew')


def _tables_nontrivial(q, a):
    return a.startswith('ok ')


NONTRIVIAL = {
    'parse': _parse_nontrivial,
    'tables': _tables_nontrivial,
}


def _cls2(q, a):
    return ' '.join(a.split(' ')[:2]) if a.startswith('err') else a.split(' ')[0]


CLASSIFY = {
    'parse': _cls2,
    'tables': _cls2,
}


def tolerant_equal(fam, q, a, b):
    """Tier-2 agreement (DESIGN.md §2.3): float-noise tolerance for families where the property
    itself is stated up to floating-point accuracy. Tier 1 (bit equality) is tried first by the
    caller; a family is listed here only when a harmless re-association of the crate's arithmetic
    must not raise an alarm."""
    tol = TOLERANT.get(fam)
    if tol is None:
        return False
    return tol(q, a, b)


TOLERANT = {}

# ---------------------------------------------------------------- properties

COMMON_TRUST = []
SOURCE_COMMITS = []
NOT_CLAIMED = {}

PROPS = {
    'C16': {
        'level_text': 'Full proof. The property quantifies over a finite space (7 tables, <=4 operations, <=16 products each); it is decided completely by the Lean kernel (decide +kernel at exact Rat) on tables regenerated from the current text of src/wallpaper.rs and parsed by the model parser, against the ITA reference; lifted to explicitly quantified theorems.',
        'level_note': 'Trusted: Lean kernel + 3 standard axioms; reference tables typed from International Tables A; translator pvtx.py (validated by the tables family: generated tables vs get_wallpaper_group + WyckoffSite::new on the real crate); model parser tied to from_operations by the parse family (bit-exact).',
        'technique': 'Lean 4 kernel decision (decide +kernel) over translator-regenerated tables + differential correspondence',
        'theorems': ['Proofs.C16'],
        'families': [('tables', 14, 14), ('parse', 4000, 60000)],
        'search': (5, 20),
        'rule': ('tables: every CLI variant plus unknown names, reply ok = non-trivial; parse: grammar/mutated/arbitrary strings, '
                 'non-trivial = ok with >=2 non-zero entries or an error other than tooFew; distinct by request text; '
                 'search: the 7 real tables against the reference plane groups (exhaustive: 7 groups, all operation pairs)'),
        'explanation': 'finite space decided completely in the Lean kernel on the regenerated tables; the tables/parse families tie the generated '
                       'tables and the model parser to get_wallpaper_group / WyckoffSite::new / from_operations',
        'assumptions': ['reference general positions typed in from International Tables A (Spec/Groups.lean)'],
    },
    'C17': {
        'level_text': 'Full proof of the grammar clause (every string of the inductively defined grammar parses to the affine map its expression denotes, over any field) and of totality/error clauses for all strings, about a character-level model of from_operations.',
        'level_note': 'Trusted: Lean kernel + 3 standard axioms; the model parser is tied to Transform2::from_operations by bit-exact differential correspondence on grammar, mutated and arbitrary Unicode strings; f64 rounding of d/e outside the theorem; Rust-level absence of panics rests on the modelled control flow (index sites guarded by the dimension check).',
        'technique': 'Lean 4 structural induction over an inductive grammar + differential correspondence',
        'theorems': ['Proofs.C17'],
        'families': [('parse', 20000, 400000)],
        'search': (8, 120),
        'rule': ('parse: 60% grammar strings (all term orders/signs/spacing), 20% mutated, 10% alphabet noise, 10% arbitrary Unicode; '
                 'non-trivial = ok with >=2 non-zero entries or an error other than tooFew; distinct by request text; '
                 'search: grammar strings with independently computed denotation, evaluated at 5 probe points on the real transform'),
        'explanation': 'grammar_sound is proved for every string of the grammar over any field; the parse family pins the model parser to the Rust function bit-for-bit',
        'assumptions': ['f64 rounding of the single division d/e is outside the theorem (entries in {0,±1} are exact)'],
    },
}
