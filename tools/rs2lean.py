#!/usr/bin/env python3
"""rs2lean — translator for function bodies: a subset of Rust (pure floating-point arithmetic,
`let`, early `return`, `if`/`else`, `match` on options/tuples with guards, method calls of the
f64 API and of nalgebra points) to Lean 4 definitions over the scalar-polymorphic carrier of the
model (lean/Model/Scalar.lean).

The output `lean/Generated/Fns*.lean` is rewritten from /repo's source on every run.  The files
`lean/Proofs/Tie*.lean` prove, over the reals, that each generated definition IS the hand-written
model function the property theorems are about; so a change of a function body in the source
changes a generated definition and breaks (or, for a harmless rewrite, re-proves by `ring_nf`) a
proof obligation of exactly the properties that depend on that function.

A construct outside the subset makes the function `untranslated`: no definition is emitted for
it (the tie theorem then fails to elaborate, which is a broken obligation) and the reason is put
into `<group>Untranslated : List String`.
"""
import re
import sys
import os
from fractions import Fraction

sys.path.insert(0, os.path.dirname(os.path.abspath(__file__)))
from pvtx import read as _read, match_brace, lean_str  # noqa: E402

# where `Emitter.inline_helper` looks private helper functions up (set per translated function)
HELPER = {'src': None, 'depth': 0}

# every source file read, by its path relative to the repository: where private helper functions are looked up
FILES = {}


def read(repo, rel):
    t = _read(repo, rel)
    FILES[rel] = t
    return t



class Untranslatable(Exception):
    pass


# declared element types of `let mut v: Vec<T> = vec![]`
VEC_TYPES = {'Vec<Line2>': ('Line2 α', ('st', 'Line2')), 'Vec<Atom2>': ('Atom2 α', ('st', 'Atom2')), 'Vec<LJ2>': ('LJ2 α', ('st', 'LJ2'))}


# ----------------------------------------------------------------------------- lexer

PUNCT = ['..=', '::', '->', '=>', '==', '!=', '<=', '>=', '&&', '||', '+=', '-=', '*=', '/=', '..']
TOK = re.compile(
    r'\s*(?:'
    r'(?P<com>//[^\n]*)|'
    r'(?P<num>(?:\d[\d_]*\.\d[\d_]*(?:[eE][+-]?\d+)?|\d[\d_]*\.(?![\w.])|\d[\d_]*[eE][+-]?\d+|\d[\d_]*)(?:_?(?:f64|f32|u64|u32|usize|i64|i32))?)'
    r'|(?P<id>[A-Za-z_]\w*)'
    r'|(?P<str>"(?:[^"\\]|\\.)*")'
    r"|(?P<chr>'(?:[^'\\]|\\.)')"
    r"|(?P<life>'[a-z_]\w*(?!'))"
    r'|(?P<p>\.\.=|::|->|=>|==|!=|<=|>=|&&|\|\||\+=|-=|\*=|/=|\.\.|[-+*/%<>=!&|.,;:(){}\[\]#?@^~])'
    r')')


def lex(src):
    out = []
    pos = 0
    n = len(src)
    while pos < n:
        m = TOK.match(src, pos)
        if not m or m.end() == pos:
            if src[pos:].strip() == '':
                break
            raise Untranslatable('cannot tokenise at %r' % src[pos:pos + 20])
        pos = m.end()
        if m.group('com') is not None:
            continue
        for k in ('num', 'id', 'str', 'chr', 'life', 'p'):
            if m.group(k) is not None:
                out.append((k, m.group(k)))
                break
    return out


# ----------------------------------------------------------------------------- parser

BINPREC = {'||': 1, '&&': 2, '==': 3, '!=': 3, '<': 3, '>': 3, '<=': 3, '>=': 3,
           '+': 5, '-': 5, '*': 6, '/': 6, '%': 6}


class P:
    def __init__(self, toks):
        self.t = toks
        self.i = 0

    def peek(self, k=0):
        j = self.i + k
        return self.t[j] if j < len(self.t) else (None, None)

    def at(self, v):
        return self.peek()[1] == v and self.peek()[0] in ('p', 'id')

    def take(self, v=None):
        tok = self.peek()
        if v is not None and tok[1] != v:
            raise Untranslatable('expected %r, found %r' % (v, tok[1]))
        self.i += 1
        return tok

    # --- types (skipped)
    def skip_type(self):
        depth = 0
        while True:
            k, v = self.peek()
            if k is None:
                return
            if v in ('<', '(', '['):
                depth += 1
            elif v in ('>', ')', ']'):
                if depth == 0:
                    return
                depth -= 1
            elif depth == 0 and v in ('=', ';', ',', '{', ')'):
                return
            self.i += 1

    def skip_closure_type(self):
        depth = 0
        while True:
            k, v = self.peek()
            if k is None:
                return
            if v in ('<', '(', '['):
                depth += 1
            elif v in ('>', ')', ']'):
                depth -= 1
            elif depth == 0 and v in (',', '|'):
                return
            self.i += 1

    # --- blocks and statements
    def block(self):
        self.take('{')
        stmts = []
        tail = None
        while not self.at('}'):
            if self.at(';'):
                self.take()
                continue
            if self.at('let'):
                self.take()
                if self.at('mut'):
                    self.take()
                pat = self.pattern()
                tytxt = None
                if self.at(':'):
                    self.take()
                    i0 = self.i
                    self.skip_type()
                    tytxt = ''.join(v for _, v in self.t[i0:self.i])
                self.take('=')
                e = self.expr()
                self.take(';')
                stmts.append(('let', pat, e, tytxt))
                continue
            if self.at('for'):
                self.take()
                pat = self.pattern()
                self.take('in')
                it = self.expr(0, True)
                body = self.block()
                stmts.append(('for', pat, it, body))
                continue
            if self.at('return'):
                self.take()
                e = None if self.at(';') else self.expr()
                if self.at(';'):
                    self.take()
                stmts.append(('return', e))
                continue
            e = self.expr()
            if self.peek()[1] in ('=', '+=', '-=', '*=', '/='):
                op = self.take()[1]
                r = self.expr()
                if not self.at('}'):
                    self.take(';')
                stmts.append(('assign', e, op, r))
                continue
            if self.at(';'):
                self.take()
                stmts.append(('expr', e))
            elif self.at('}'):
                tail = e
            elif e[0] in ('if', 'iflet', 'match', 'block', 'for', 'while'):
                stmts.append(('expr', e))
            else:
                raise Untranslatable('statement: unexpected %r' % (self.peek()[1],))
        self.take('}')
        return ('block', stmts, tail)

    # --- patterns
    def pattern(self):
        k, v = self.peek()
        if v == '_' and k == 'id':
            self.take()
            return ('pwild',)
        if v == '&':
            self.take()
            return self.pattern()
        if v == '(':
            self.take()
            ps = []
            while not self.at(')'):
                ps.append(self.pattern())
                if self.at(','):
                    self.take()
            self.take(')')
            return ('ptuple', ps)
        if k == 'num':
            self.take()
            return ('plit', v)
        if k == 'chr':
            self.take()
            if self.peek() == ('p', '..='):
                self.take()
                k2, v2 = self.take()
                if k2 != 'chr':
                    raise Untranslatable('range pattern')
                return ('prange', v, v2)
            return ('pchr', v)
        if k == 'id':
            path = [self.take()[1]]
            while self.at('::'):
                self.take()
                path.append(self.take()[1])
            if self.at('('):
                self.take()
                ps = []
                while not self.at(')'):
                    ps.append(self.pattern())
                    if self.at(','):
                        self.take()
                self.take(')')
                return ('pcall', path, ps)
            if len(path) == 1 and path[0][0].islower():
                return ('pid', path[0])
            return ('ppath', path)
        raise Untranslatable('pattern: unexpected %r' % (v,))

    # --- expressions
    def expr(self, minprec=0, nostruct=False):
        e = self.binexpr(minprec, nostruct)
        if minprec == 0 and self.peek()[0] == 'p' and self.peek()[1] in ('..=', '..'):
            incl = self.take()[1] == '..='
            r = self.binexpr(0, nostruct)
            return ('range', e, r, incl)
        return e

    def binexpr(self, minprec=0, nostruct=False):
        lhs = self.unary(nostruct)
        while True:
            k, v = self.peek()
            if v == 'as' and k == 'id':
                self.take()
                ty = self.take()[1]
                lhs = ('cast', lhs, ty)
                continue
            if k == 'p' and v in BINPREC and BINPREC[v] >= minprec + 0 and BINPREC[v] > minprec - 1:
                prec = BINPREC[v]
                if prec < minprec:
                    break
                self.take()
                rhs = self.binexpr(prec + 1, nostruct)
                lhs = ('bin', v, lhs, rhs)
                continue
            break
        return lhs

    def unary(self, nostruct):
        k, v = self.peek()
        if k == 'p' and v in ('-', '!', '&', '*'):
            self.take()
            if v == '&' and self.at('mut'):
                self.take()
            return ('un', v, self.unary(nostruct))
        return self.postfix(self.atom(nostruct), nostruct)

    def args(self):
        self.take('(')
        out = []
        while not self.at(')'):
            out.append(self.expr())
            if self.at(','):
                self.take()
        self.take(')')
        return out

    def postfix(self, e, nostruct):
        while True:
            k, v = self.peek()
            if v == '.' and k == 'p':
                self.take()
                k2, name = self.take()
                if k2 == 'num':
                    e = ('field', e, name)
                    continue
                if self.at('::'):
                    # turbofish
                    self.take()
                    self.take('<')
                    self.skip_type()
                    self.take('>')
                if self.at('('):
                    e = ('mcall', e, name, self.args())
                else:
                    e = ('field', e, name)
                continue
            if v == '(' and k == 'p':
                e = ('call', e, self.args())
                continue
            if v == '?' and k == 'p':
                self.take()
                e = ('try', e)
                continue
            if v == '[' and k == 'p':
                self.take()
                idx = self.expr()
                self.take(']')
                e = ('index', e, idx)
                continue
            break
        return e

    def atom(self, nostruct):
        k, v = self.peek()
        if k == 'num':
            self.take()
            return ('num', v)
        if k == 'str':
            self.take()
            return ('str', v)
        if k == 'chr':
            self.take()
            return ('chr', v)
        if v == '[' and k == 'p':
            self.take()
            items = []
            while not self.at(']'):
                items.append(self.expr())
                if self.at(','):
                    self.take()
            self.take(']')
            return ('array', items)
        if v == '(':
            self.take()
            if self.at(')'):
                self.take()
                return ('tuple', [])
            e = self.expr()
            if self.at(','):
                es = [e]
                while self.at(','):
                    self.take()
                    if self.at(')'):
                        break
                    es.append(self.expr())
                self.take(')')
                return ('tuple', es)
            self.take(')')
            return e
        if v == '{':
            return self.block()
        if v == 'if' and k == 'id' and self.peek(1) == ('id', 'let'):
            self.take()
            self.take()
            pat = self.pattern()
            self.take('=')
            scrut = self.expr(0, True)
            b = self.block()
            el = None
            if self.at('else'):
                self.take()
                el = self.block()
            return ('iflet', pat, scrut, b, el)
        if v == 'if' and k == 'id':
            self.take()
            c = self.expr(0, True)
            b = self.block()
            el = None
            if self.at('else'):
                self.take()
                if self.at('if'):
                    el = ('block', [], self.atom(nostruct))
                else:
                    el = self.block()
            return ('if', c, b, el)
        if v == 'match' and k == 'id':
            self.take()
            s = self.expr(0, True)
            self.take('{')
            arms = []
            while not self.at('}'):
                pats = [self.pattern()]
                while self.at('|'):
                    self.take()
                    pats.append(self.pattern())
                guard = None
                if self.at('if'):
                    self.take()
                    guard = self.expr(0, True)
                self.take('=>')
                body = self.expr()
                if self.at(','):
                    self.take()
                for p in pats:
                    arms.append((p, guard, body))
            self.take('}')
            return ('match', s, arms)
        if v == 'move' and k == 'id' and self.peek(1)[1] in ('|', '||'):
            self.take()
            k, v = self.peek()
        if v == '||' and k == 'p':
            self.take()
            return ('closure', [], self.expr())
        if v == '|' and k == 'p':
            self.take()
            params = []
            while not self.at('|'):
                params.append(self.pattern())
                if self.at(':'):
                    self.take()
                    self.skip_closure_type()
                if self.at(','):
                    self.take()
            self.take('|')
            return ('closure', params, self.expr())
        if v in ('for', 'while', 'loop') and k == 'id':
            raise Untranslatable('loop in expression position')
        if k == 'id':
            path = [self.take()[1]]
            while self.at('::'):
                self.take()
                if self.at('<'):
                    self.take()
                    self.skip_type()
                    self.take('>')
                    continue
                path.append(self.take()[1])
            if self.at('!'):
                # macro invocation: `iproduct!(a, b)` keeps its arguments, any other body is skipped
                self.take()
                if path[-1] == 'iproduct' and self.at('('):
                    return ('iproduct', self.args())
                if path[-1] == 'bail' and self.at('('):
                    return ('bail', self.args())
                if path[-1] == 'vec' and self.at('['):
                    self.take('[')
                    items = []
                    rep = None
                    while not self.at(']'):
                        items.append(self.expr())
                        if self.at(';') and len(items) == 1:
                            self.take()
                            rep = self.expr()
                            break
                        if self.at(','):
                            self.take()
                    self.take(']')
                    if rep is not None:
                        return ('repeat', items[0], rep)
                    return ('array', items)
                k3, v3 = self.peek()
                close = {'(': ')', '[': ']', '{': '}'}[v3]
                depth = 0
                while True:
                    kk, vv = self.take()
                    if vv == v3:
                        depth += 1
                    elif vv == close:
                        depth -= 1
                        if depth == 0:
                            break
                    if kk is None:
                        raise Untranslatable('macro')
                return ('macro', path[-1])
            if self.at('{') and not nostruct and path[-1][0].isupper():
                self.take('{')
                fields = []
                base = None
                while not self.at('}'):
                    if self.at('..'):
                        self.take()
                        base = self.expr()
                    else:
                        fname = self.take()[1]
                        if self.at(':'):
                            self.take()
                            fields.append((fname, self.expr()))
                        else:
                            fields.append((fname, ('path', [fname])))
                    if self.at(','):
                        self.take()
                self.take('}')
                return ('struct', path, fields, base)
            return ('path', path)
        raise Untranslatable('expression: unexpected %r' % (v,))


def parse_fn_body(text):
    toks = lex('{' + text + '}')
    p = P(toks)
    b = p.block()
    if p.i != len(toks):
        raise Untranslatable('trailing tokens')
    return b


# ----------------------------------------------------------------------------- emitter

def lit(text):
    t = re.sub(r'_?(f64|f32|u64|u32|usize|i64|i32)$', '', text).replace('_', '')
    if t.endswith('.'):
        t = t[:-1]
    fr = Fraction(t)
    if fr.denominator == 1:
        return '((%d : Nat) : α)' % fr.numerator
    return '(q %d %d : α)' % (fr.numerator, fr.denominator)


LOGGING = {'debug', 'trace', 'info', 'warn', 'error'}

T_MAT = ('st', 'Transform2')
INLINE_PT = [False]
T_P = ('P',)           # the model's `Pt` structure (what nalgebra `Point2` is in Mat3.position / setPosition)


def comp2(t, ty, i):
    if ty == T_P:
        return '%s.%s' % (t, 'x' if i == 1 else 'y')
    return comp(t, i)


def as_P(t, ty):
    """a point-like term as the model's `Pt`"""
    if ty == T_P:
        return t
    if INLINE_PT[0]:
        return '(⟨%s, %s⟩ : Pt α)' % (comp(t, 1), comp(t, 2))
    return '(mkPt %s)' % t


def comp(t, i):
    """component i (1 or 2) of a pair term; a literal pair `(a, b)` is taken apart"""
    if t.startswith('(') and t.endswith(')'):
        depth = 0
        for k, c in enumerate(t):
            if c in '([{':
                depth += 1
            elif c in ')]}':
                depth -= 1
                if depth == 0 and k != len(t) - 1:
                    break
            elif c == ',' and depth == 1:
                a, b = t[1:k].strip(), t[k + 1:-1].strip()
                # only a 2-tuple
                d2 = 0
                ok = True
                for c2 in b:
                    if c2 in '([{':
                        d2 += 1
                    elif c2 in ')]}':
                        d2 -= 1
                    elif c2 == ',' and d2 == 0:
                        ok = False
                if ok:
                    return a if i == 1 else b
                break
    return '%s.%d' % (t, i)

# type tags: 'f' scalar, 'b' Bool, 'n' Nat, ('pt',), ('vec',), ('opt', t), ('tup', [ts]), ('st', name)


class Emitter:
    """env: name -> (lean term, type).  structs: struct name -> {field: (template, type)} where the
    template uses `{s}` for the Lean term of the struct value.  methods: (struct, name) -> (lean
    function name, result type) for calls that are translated separately or belong to the model."""

    def __init__(self, env, structs, methods, consts, selfty=None):
        self.env = dict(env)
        self.structs = structs
        self.methods = methods
        self.consts = consts
        self.selfty = selfty
        self.fresh = 0

    # ---- expressions: returns (term, type)
    def ex(self, e):
        k = e[0]
        if k == 'num':
            return lit(e[1]), 'f'
        if k == 'path':
            return self.path(e[1])
        if k == 'un':
            op, a = e[1], e[2]
            if op in ('&', '*'):
                return self.ex(a)
            t, ty = self.ex(a)
            if op == '-':
                if ty == 'i':
                    return '(-%s)' % t, 'i'
                if ty == ('vec',):
                    return ('((-%s), (-%s))' % (comp(t, 1), comp(t, 2))), ty
                return '(-%s)' % t, ty
            if op == '!':
                return '(!%s)' % self.as_bool(a), 'b'
        if k == 'cast':
            t, ty = self.ex(e[1])
            if e[2] == 'f64':
                if ty == 'n':
                    return '((%s : Nat) : α)' % t, 'f'
                if ty == 'i':
                    return '((%s : Int) : α)' % t, 'f'
                return t, ty
            if e[2] in ('i64', 'isize') and ty == 'f':
                return '(FMin.toI64 %s)' % t, 'i'
            if e[2] in ('u64', 'usize') and ty == 'n':
                return t, 'n'
            raise Untranslatable('cast to ' + e[2])
        if k == 'bin':
            return self.binop(e[1], e[2], e[3])
        if k == 'field':
            return self.field(e[1], e[2])
        if k == 'mcall':
            return self.mcall(e[1], e[2], e[3])
        if k == 'call':
            return self.call(e[1], e[2])
        if k == 'tuple':
            parts = [self.ex(x) for x in e[1]]
            return '(' + ', '.join(p[0] for p in parts) + ')', ('tup', [p[1] for p in parts])
        if k == 'if':
            if e[3] is None:
                raise Untranslatable('if without else used as a value')
            c = self.as_prop(e[1])
            a, ta = self.blk(e[2])
            b, tb = self.blk(e[3])
            return '(if %s then %s else %s)' % (c, a, b), ta
        if k == 'iflet':
            # `if let Some(x) = opt { a } else { b }` as a value
            pat, scrut, b_then, b_else = e[1], e[2], e[3], e[4]
            sc, sty = self.ex(scrut)
            if b_else is None or not (pat[0] == 'pcall' and pat[1] == ['Some'] and len(pat[2]) == 1 and pat[2][0][0] in ('pid', 'pwild')
                                      and isinstance(sty, tuple) and sty[0] == 'opt'):
                raise Untranslatable('if let other than `Some(x) = <option>` with an else branch')
            sub = self.sub()
            x = pat[2][0][1] if pat[2][0][0] == 'pid' else '_'
            if x != '_':
                sub.env[x] = (x, sty[1])
            a, ta = sub.blk(b_then)
            b, tb = self.blk(b_else)
            return '(match %s with | some %s => %s | none => %s)' % (sc, x, a, b), ta
        if k == 'match':
            return self.match(e[1], e[2])
        if k == 'block':
            return self.blk(e)
        if k == 'struct':
            name = e[1][-1]
            if name == 'Self' and self.selfty is not None:
                name = self.selfty
            fs = {}
            if e[3] is not None:
                b = e[3]
                if name == 'LJ2' and b[0] == 'call' and b[1][0] == 'path' and '::'.join(b[1][1]) == 'Default::default' and not b[2] \
                        and ('LJ2', 'default') in self.methods:
                    d = self.methods[('LJ2', 'default')][0]
                    fs = {'position': ('((%s).x, (%s).y)' % (d, d), ('pt',)), 'sigma': ('(%s).sigma' % d, 'f'),
                          'epsilon': ('(%s).epsilon' % d, 'f'), 'cutoff': ('(%s).cutoff' % d, ('opt', 'f'))}
                else:
                    raise Untranslatable('struct update syntax')
            given = set()
            for fname, fe in e[2]:
                if fname in given:
                    raise Untranslatable('repeated field')
                given.add(fname)
                fs[fname] = self.ex(fe)

            def pt(key):
                t, ty = fs[key]
                if ty == T_P:
                    return '%s.x' % t, '%s.y' % t
                if ty in (('pt',), ('vec',)):
                    return comp(t, 1), comp(t, 2)
                raise Untranslatable('field %s is not a point' % key)
            if name == 'LJ2' and set(fs) == {'position', 'sigma', 'epsilon', 'cutoff'}:
                x, y = pt('position')
                return '({ x := %s, y := %s, sigma := %s, epsilon := %s, cutoff := %s } : LJ2 α)' % (
                    x, y, fs['sigma'][0], fs['epsilon'][0], fs['cutoff'][0]), ('st', 'LJ2')
            if name == 'Atom2' and set(fs) == {'position', 'radius'}:
                x, y = pt('position')
                return '({ x := %s, y := %s, r := %s } : Atom2 α)' % (x, y, fs['radius'][0]), ('st', 'Atom2')
            if name == 'Line2' and set(fs) == {'start', 'end'}:
                sx, sy = pt('start')
                ex_, ey = pt('end')
                return '({ sx := %s, sy := %s, ex := %s, ey := %s } : Line2 α)' % (sx, sy, ex_, ey), ('st', 'Line2')
            if set(fs) == {'name', 'items'} and isinstance(fs['items'][1], tuple) and fs['items'][1][0] == 'list':
                return fs['items']          # a shape is modelled by the list of its components
            raise Untranslatable('struct literal %s {%s}' % (name, ', '.join(sorted(fs))))
        if k == 'iproduct':
            parts = [self.ex(a) for a in e[1]]
            if len(parts) != 2 or not all(isinstance(t, tuple) and t[0] == 'list' for _, t in parts):
                raise Untranslatable('iproduct! of other than two sequences')
            return '', ('iprod', [(p[0], p[1][1]) for p in parts])
        if k == 'range':
            lo, hi, incl = e[1], e[2], e[3]
            if incl and lo[0] == 'un' and lo[1] == '-' and lo[2] == hi:
                t, ty = self.ex(hi)
                if ty == 'i':
                    return '(shellRange %s)' % t, ('list', 'i')
            raise Untranslatable('range other than -k..=k over i64')
        if k == 'chr':
            return e[1], 'c'
        if k == 'array':
            parts = [self.ex(x) for x in e[1]]
            if not parts:
                return '[]', ('list', None)
            if any(p[1] != parts[0][1] for p in parts):
                raise Untranslatable('array literal')
            return '[' + ', '.join(p[0] for p in parts) + ']', ('list', parts[0][1])
        if k == 'repeat':
            v, vty = self.ex(e[1])
            return '(List.replicate %s %s)' % (self.nat(e[2]), v), ('list', vty)
        if k == 'str':
            return e[1], 'string' 
        if k == 'try':
            # `c.to_string().parse::<u64>()?` for a char known to be a decimal digit: its value (the parse cannot fail)
            a = e[1]
            if a[0] == 'mcall' and a[2] == 'parse' and not a[3] and a[1][0] == 'mcall' and a[1][2] == 'to_string' \
                    and a[1][1][0] == 'path' and len(a[1][1][1]) == 1 and a[1][1][1][0] in getattr(self, 'digits', set()):
                return '(digitVal %s)' % self.ex(a[1][1])[0], 'n'
            raise Untranslatable('`?` on other than the parse of a digit character')
        if k == 'closure':
            raise Untranslatable('closure outside an iterator adaptor')
        raise Untranslatable('expression kind ' + k)

    def lam(self, clo, tys):
        """a closure applied to arguments of the given types: (lean binder texts, body term, body type)"""
        if clo[0] == 'path' and len(tys) == 1 and isinstance(tys[0], tuple) and tys[0][0] == 'st':
            key = (tys[0][1], clo[1][-1])
            if key in self.methods:
                fn, rty = self.methods[key][:2]
                body = fn('fx', []) if callable(fn) else '(%s fx)' % fn
                return ['fx'], body, rty
        if clo[0] != 'closure' or len(clo[1]) != len(tys):
            raise Untranslatable('expected a closure of %d argument(s)' % len(tys))
        sub = Emitter(self.env, self.structs, self.methods, self.consts, self.selfty)
        binders = []
        for pat, ty in zip(clo[1], tys):
            ptxt, binds = self.bind(pat, None, ty)
            binders.append(ptxt)
            for n, t, tty in binds:
                sub.env[n] = (t, tty)
        bt, bty = sub.ex(clo[2])
        return binders, bt, bty

    def path(self, p):
        name = '::'.join(p)
        if len(p) == 1 and p[0] in self.env:
            return self.env[p[0]]
        if name in self.consts:
            return self.consts[name]
        if name in ('PI', 'std::f64::consts::PI', 'f64::consts::PI', 'consts::PI'):
            return '(Transc.pi : α)', 'f'
        if name in ('std::f64::MIN', 'f64::MIN'):
            return '(FMin.lowest : α)', 'f'
        if name == 'None':
            return 'none', ('opt', 'f')
        if name in ('true', 'false'):
            return name, 'b'
        raise Untranslatable('unknown name ' + name)

    def field(self, base, name):
        t, ty = self.ex(base)
        if ty == T_P and name in ('x', 'y'):
            return '%s.%s' % (t, name), 'f'
        if ty == ('pt',) or ty == ('vec',):
            if name == 'x':
                return comp(t, 1), 'f'
            if name == 'y':
                return comp(t, 2), 'f'
        if isinstance(ty, tuple) and ty[0] == 'tup' and name.isdigit():
            i = int(name)
            return '%s.%d' % (t, i + 1), ty[1][i]
        if isinstance(ty, tuple) and ty[0] == 'st':
            f = self.structs.get(ty[1], {}).get(name)
            if f is not None:
                return f[0].format(s=t), f[1]
        raise Untranslatable('field .%s of %r' % (name, ty))

    F1 = {'sin': 'sin', 'cos': 'cos', 'sqrt': 'sqrt', 'acos': 'acos', 'exp': 'exp', 'abs': 'fabs',
          'ceil': 'FModLike.ceil', 'floor': 'FModLike.floor'}
    F2 = {'min': 'fmin', 'max': 'fmax', 'powf': 'powf'}

    def mcall(self, recv, name, args):
        # struct methods first
        t, ty = self.ex(recv)
        if isinstance(ty, tuple) and ty[0] == 'list':
            el = ty[1]
            if name in ('iter', 'into_iter', 'collect', 'copied', 'cloned') and not args:
                return t, ty
            if name == 'len' and not args:
                return '(%s).length' % t, 'n'
            if name in ('map', 'flat_map') and len(args) == 1:
                b, body, bty = self.lam(args[0], [el])
                if name == 'map':
                    return '(%s.map fun %s => %s)' % (t, b[0], body), ('list', bty)
                if not (isinstance(bty, tuple) and bty[0] == 'list'):
                    raise Untranslatable('flat_map: the function does not return a sequence')
                return '(%s.flatMap fun %s => %s)' % (t, b[0], body), bty
            if name == 'filter' and len(args) == 1:
                b, body, bty = self.lam(args[0], [el])
                if bty != 'b':
                    raise Untranslatable('filter: closure is not boolean')
                return '(%s.filter fun %s => %s)' % (t, b[0], body), ty
            if name == 'enumerate' and not args:
                return '(%s.zipIdx.map fun zp => (zp.2, zp.1))' % t, ('list', ('tup', ['n', el]))
            if name == 'skip' and len(args) == 1:
                return '(%s.drop %s)' % (t, self.nat(args[0])), ty
            if name == 'cycle' and not args:
                return '', ('cyc', el, t)
            if name == 'zip' and len(args) == 1:
                b, bty = self.ex(args[0])
                if isinstance(bty, tuple) and bty[0] == 'list':
                    return '(List.zip %s %s)' % (t, b), ('list', ('tup', [el, bty[1]]))
                if isinstance(bty, tuple) and bty[0] == 'cycskip':
                    # only the first `len` elements of the endless iterator are consumed
                    return '(List.zip %s (cycleTake %s %s (%s).length))' % (t, bty[2], bty[3], t), ('list', ('tup', [el, bty[1]]))
                raise Untranslatable('zip with %r' % (bty,))
            if name == 'any' and len(args) == 1:
                b, body, bty = self.lam(args[0], [el])
                sub = body if bty == 'b' else None
                if sub is None:
                    raise Untranslatable('any: closure is not boolean')
                return '(%s.any fun %s => %s)' % (t, b[0], body), 'b'
            if name == 'sum' and not args and el == 'f':
                return '(fsum %s)' % t, 'f'
            if name == 'tuple_combinations' and not args:
                return '(pairs %s)' % t, ('list', ('tup', [el, el]))
            if name == 'fold' and len(args) == 2 and args[0][0] == 'num' and re.fullmatch(r'\d+', args[0][1]):
                b, body, bty = self.lam(args[1], ['n', el])
                return '(%s.foldl (fun %s %s => %s) %s)' % (t, b[0], b[1], body, args[0][1]), 'n'
            if name == 'fold' and len(args) == 2:
                init, ity = self.ex(args[0])
                if args[1][0] == 'path' and '::'.join(args[1][1]) in ('f64::max', 'std::f64::max') and \
                        args[0][0] == 'path' and '::'.join(args[0][1]) in ('std::f64::MIN', 'f64::MIN') and el == 'f':
                    return '(foldMax %s)' % t, 'f'
                b, body, bty = self.lam(args[1], [ity, el])
                return '(%s.foldl (fun %s %s => %s) %s)' % (t, b[0], b[1], body, init), ity
            raise Untranslatable('sequence method .%s' % name)
        if isinstance(ty, tuple) and ty[0] == 'cyc':
            if name == 'skip' and len(args) == 1:
                return '', ('cycskip', ty[1], ty[2], self.nat(args[0]))
            raise Untranslatable('method .%s on an endless iterator' % name)
        if isinstance(ty, tuple) and ty[0] == 'iprod':
            (ta, ea), (tb, eb) = ty[1]
            if name == 'filter' and len(args) == 1:
                b, body, bty = self.lam(args[0], [('tup', [ea, eb])])
                if bty != 'b':
                    raise Untranslatable('filter: closure is not boolean')
                return '((%s.flatMap fun ip_a => %s.map fun ip_b => (ip_a, ip_b)).filter fun %s => %s)' % (ta, tb, b[0], body), ('list', ('tup', [ea, eb]))
            if name == 'map' and len(args) == 1:
                b, body, bty = self.lam(args[0], [('tup', [ea, eb])])
                return '(%s.flatMap fun ip_a => %s.map fun ip_b => (fun %s => %s) (ip_a, ip_b))' % (ta, tb, b[0], body), ('list', bty)
            if name == 'any' and len(args) == 1:
                b, body, bty = self.lam(args[0], [('tup', [ea, eb])])
                if bty != 'b':
                    raise Untranslatable('any: closure is not boolean')
                return '(%s.any fun ip_a => %s.any fun ip_b => (fun %s => %s) (ip_a, ip_b))' % (ta, tb, b[0], body), 'b'
            if name == 'fold' and len(args) == 2:
                init, ity = self.ex(args[0])
                b, body, bty = self.lam(args[1], [ity, ('tup', [ea, eb])])
                return '((%s.flatMap fun ip_a => %s.map fun ip_b => (ip_a, ip_b)).foldl (fun %s %s => %s) %s)' % (ta, tb, b[0], b[1], body, init), ity
            raise Untranslatable('iproduct method .%s' % name)
        if isinstance(ty, tuple) and ty[0] == 'st' and (ty[1], name) in self.methods:
            ent = self.methods[(ty[1], name)]
            fn, rty = ent[0], ent[1]
            ats = []
            for i, a in enumerate(args):
                at, aty = self.ex(a)
                if len(ent) > 2 and i < len(ent[2]) and ent[2][i] == T_P:
                    at = as_P(at, aty)
                if len(ent) > 2 and i < len(ent[2]) and ent[2][i] in ('i', 'n') and a[0] == 'num':
                    at = self.nat(a)
                ats.append(at)
            if callable(fn):
                return fn(t, ats), rty
            return '(%s %s)' % (fn, ' '.join([t] + ats)), rty
        if ty == T_MAT:
            if name == 'position' and not args:
                return '(Mat3.position %s)' % t, T_P
            if name == 'set_position' and len(args) == 1:
                a, aty = self.ex(args[0])
                return '(Mat3.setPosition %s %s)' % (t, as_P(a, aty)), T_MAT
            if name == 'periodic' and len(args) == 2:
                return '(Mat3.periodic %s %s %s)' % (t, self.ex(args[0])[0], self.ex(args[1])[0]), T_MAT
        if ty == ('str',):
            if name == 'chars' and not args:
                return t, ('list', 'c')
            if name == 'trim_matches' and len(args) == 1:
                a, aty = self.ex(args[0])
                if aty == ('list', 'c'):
                    return '(trimMatches %s %s)' % (a, t), ('str',)
            if name == 'split_terminator' and len(args) == 1 and args[0] == ('chr', "','"):
                return '(splitTerminator %s)' % t, ('list', ('str',))
            raise Untranslatable('string method .%s' % name)
        if ty == 'n' and name in ('min', 'max') and len(args) == 1:
            return '(Nat.%s %s %s)' % (name, t, self.nat(args[0])), 'n'
        if ty == 'f':
            if name in self.F1 and not args:
                return '(%s %s)' % (self.F1[name], t), 'f'
            if name in self.F2 and len(args) == 1:
                return '(%s %s %s)' % (self.F2[name], t, self.ex(args[0])[0]), 'f'
            if name == 'powi' and len(args) == 1 and args[0][0] == 'num':
                return '(powi %s %s)' % (t, args[0][1]), 'f'
            if name == 'mul' and len(args) == 1:
                return '(%s * %s)' % (t, self.ex(args[0])[0]), 'f'
            if name == 'partial_cmp' and len(args) == 1:
                a, aty = self.ex(args[0])
                if aty == 'f':
                    return '(fPartialCmp %s %s)' % (t, a), ('opt', 'ord')
            if name == 'eq' and len(args) == 1:
                a, aty = self.ex(args[0])
                if aty == 'f':
                    return '(%s == %s)' % (t, a), 'b'
            if name == 'is_nan' and not args:
                return '(!(%s == %s))' % (t, t), 'b'
            if name == 'to_radians' and not args:
                return '(%s * ((Transc.pi : α) / ((180 : Nat) : α)))' % t, 'f'
        if ty == ('vec',) and name == 'norm_squared' and not args:
            return '(normSq %s %s)' % (comp(t, 1), comp(t, 2)), 'f'
        if isinstance(ty, tuple) and ty[0] == 'opt' and name == 'unwrap' and not args and getattr(self, 'unwrap_tail', False):
            # only as the whole value of a function whose Lean result type is `Option _`: `none` = the panic
            return t, ty
        if isinstance(ty, tuple) and ty[0] == 'opt' and name == 'is_some' and not args:
            return '(%s).isSome' % t, 'b'
        if name == 'get_value' and not args:
            return t, ty
        if name in ('clone', 'into', 'borrow') and not args:
            return t, ty
        if isinstance(ty, tuple) and ty[0] == 'st':
            r = self.inline_helper(name, (t, ty), args)
            if r is not None:
                return r
        raise Untranslatable('method .%s on %r' % (name, ty))

    def call(self, f, args):
        if f[0] != 'path':
            raise Untranslatable('call of a non-path')
        name = '::'.join(f[1])
        if name == 'Some' and len(args) == 1:
            t, ty = self.ex(args[0])
            return '(some %s)' % t, ('opt', ty)
        m = re.match(r'^(?:std::)?f64::(\w+)$', name)
        if m:
            fn = m.group(1)
            if fn in self.F1 and len(args) == 1:
                return '(%s %s)' % (self.F1[fn], self.ex(args[0])[0]), 'f'
            if fn in self.F2 and len(args) == 2:
                return '(%s %s %s)' % (self.F2[fn], self.ex(args[0])[0], self.ex(args[1])[0]), 'f'
            if fn == 'from' and len(args) == 1:
                return self.ex(('cast', args[0], 'f64'))
        m = re.match(r'^(?:u64|usize)::(min|max)$', name)
        if m and len(args) == 2:
            return '(Nat.%s %s %s)' % (m.group(1), self.nat(args[0]), self.nat(args[1])), 'n'
        if name in ('nalgebra::distance', 'na::distance', 'distance') and len(args) == 2:
            a, ta = self.ex(args[0])
            b, tb = self.ex(args[1])
            return '(dist %s %s %s %s)' % (comp(a, 1), comp(a, 2), comp(b, 1), comp(b, 2)), 'f'
        if name in ('Point2::origin', 'nalgebra::Point2::origin') and not args:
            return '(((0 : Nat) : α), ((0 : Nat) : α))', ('pt',)
        if name == 'String::from' and len(args) == 1:
            return self.ex(args[0])[0], 'string'
        if name in ('Matrix3::zeros', 'nalgebra::Matrix3::zeros') and not args:
            return '(Mat3.zeros : Mat3 α)', T_MAT
        if name == 'Transform2::from' and len(args) == 1:
            t, ty = self.ex(args[0])
            if ty == T_MAT:
                return t, T_MAT
        if name == 'Transform2::new' and len(args) == 2:
            rot, _ = self.ex(args[0])
            tr, tty = self.ex(args[1])
            return '(Mat3.new %s %s %s)' % (rot, comp(tr, 1), comp(tr, 2)), T_MAT
        if name in ('Translation2::new', 'nalgebra::Translation2::new') and len(args) == 2:
            return '(%s, %s)' % (self.ex(args[0])[0], self.ex(args[1])[0]), ('transl',)
        if name in ('Point2::new', 'Vector2::new') and len(args) == 2:
            return '(%s, %s)' % (self.ex(args[0])[0], self.ex(args[1])[0]), ('pt',) if name.startswith('Point') else ('vec',)
        key = ('Self', f[1][-1]) if f[1][0] == 'Self' else ('', name)
        if f[1][0] == 'Self' and self.selfty is not None and (self.selfty, f[1][-1]) in self.methods:
            fn, rty = self.methods[(self.selfty, f[1][-1])][:2]
            return '(%s %s)' % (fn, ' '.join(self.ex(a)[0] for a in args)), rty
        if key in self.methods:
            fn, rty = self.methods[key][:2]
            if callable(fn):
                return fn(None, [self.ex(a)[0] for a in args]), rty
            return '(%s %s)' % (fn, ' '.join(self.ex(a)[0] for a in args)), rty
        if f[1][0] == 'Self' and len(f[1]) == 2:
            r = self.inline_helper(f[1][1], None, args)
            if r is not None:
                return r
        raise Untranslatable('call of ' + name)

    # ---- private helper functions of the same source file are translated in place (inlined): a refactoring
    # that moves a sub-expression into a helper keeps the generated term equal up to `let`s
    RUST_TY = {'f64': 'f', 'u64': 'n', 'usize': 'n', 'i64': 'i', 'bool': 'b'}

    def inline_helper(self, name, recv, args):
        """term, type of `recv.name(args)` / `Self::name(args)` for a helper found in `self.helper_src`, or None"""
        # (module-level state: sub-emitters are created in many places)
        src = HELPER['src']
        depth = HELPER['depth']
        if not src or depth >= 3:
            return None
        ft = fn_text(src, name)
        if ft is None:
            return None
        params_txt, body = ft
        # return type (scalars only)
        m = re.search(r'\bfn\s+' + re.escape(name) + r'\b[^{;]*?->\s*([A-Za-z0-9_:<>]+)\s*(?:where[^{]*)?\{', src)
        rty = self.RUST_TY.get(m.group(1)) if m else None
        if rty is None:
            return None
        env = {}
        lets = []
        ps = [x.strip() for x in params_txt.split(',') if x.strip()]
        if ps and re.fullmatch(r'&?\s*(?:mut\s+)?self', ps[0]):
            if recv is None:
                return None
            env['self'] = recv
            ps = ps[1:]
        elif recv is not None:
            return None
        if len(ps) != len(args):
            return None
        self.fresh += 1
        for i, (ptxt, a) in enumerate(zip(ps, args)):
            mm = re.fullmatch(r'(?:mut\s+)?(\w+)\s*:\s*&?\s*(\w+)', ptxt)
            if not mm or mm.group(2) not in self.RUST_TY:
                return None
            at, aty = self.ex(a)
            want = self.RUST_TY[mm.group(2)]
            if want == 'n' and a[0] == 'num':
                at, aty = self.nat(a), 'n'
            if aty != want:
                return None
            v = 'h%d_%s' % (self.fresh, mm.group(1))
            lets.append('let %s := %s; ' % (v, at))
            env[mm.group(1)] = (v, want)
        sub = Emitter(env, self.structs, self.methods, self.consts, self.selfty)
        sub.fresh = self.fresh + 50
        HELPER['depth'] = depth + 1
        try:
            bt, bty = sub.blk(parse_fn_body(body))
        except Untranslatable:
            return None
        finally:
            HELPER['depth'] = depth
        if bty != rty:
            return None
        return '(%s%s)' % (''.join(lets), bt), rty

    def nat(self, e):
        if e[0] == 'num':
            return re.sub(r'_?(u64|usize|u32)$', '', e[1])
        t, ty = self.ex(e)
        if ty != 'n':
            raise Untranslatable('expected an unsigned integer')
        return t

    def binop(self, op, l, r):
        if op in ('&&', '||', '==', '!=', '<', '>', '<=', '>='):
            return '(decide %s)' % self.as_prop(('bin', op, l, r)), 'b'
        a, ta = self.ex(l)
        b, tb = self.ex(r)
        if ta == 'n' and r[0] == 'num':
            b = self.nat(r)
            tb = 'n'
        if tb == 'n' and l[0] == 'num':
            a = self.nat(l)
            ta = 'n'
        if ta == 'n' and tb == 'n':
            if op in '+*/%':
                return '(%s %s %s)' % (a, op, b), 'n'
            raise Untranslatable('unsigned ' + op)
        if op == '*' and isinstance(ta, tuple) and ta[0] == 'st' and tb == T_MAT and (ta[1], 'mul_right') in self.methods:
            return '(%s %s %s)' % (self.methods[(ta[1], 'mul_right')][0], a, b), ta
        if op == '*' and isinstance(tb, tuple) and tb[0] == 'st' and ta == T_MAT and (tb[1], 'mul_left') in self.methods:
            return '(%s %s %s)' % (self.methods[(tb[1], 'mul_left')][0], a, b), tb
        if ta == T_MAT and tb == T_MAT and op == '*':
            return '(Mat3.mul %s %s)' % (a, b), T_MAT
        if ta == T_MAT and tb in (T_P, ('pt',)) and op == '*':
            return '(Mat3.apply %s %s)' % (a, as_P(b, tb)), T_P
        if ta == ('transl',) and tb in (T_P, ('pt',)) and op == '*':
            # nalgebra `Translation * Point` = point + vector
            return '((%s + %s), (%s + %s))' % (comp2(b, tb, 1), comp(a, 1), comp2(b, tb, 2), comp(a, 2)), ('pt',)
        if ta == 'i' and tb == 'i' and op in '+-*':
            return '(%s %s %s)' % (a, op, b), 'i'
        if ta == 'i' and r[0] == 'num' and op in '+-*':
            return '(%s %s %s)' % (a, op, self.nat(r)), 'i'
        if T_P in (ta, tb) and ta in (('pt',), ('vec',), T_P) and tb in (('pt',), ('vec',), T_P) and op in '+-':
            rt = ('vec',) if op == '-' else ('pt',)
            return '((%s %s %s), (%s %s %s))' % (comp2(a, ta, 1), op, comp2(b, tb, 1), comp2(a, ta, 2), op, comp2(b, tb, 2)), rt
        if ta in (('pt',), ('vec',)) and tb in (('pt',), ('vec',)) and op in '+-':
            rt = ('vec',) if (op == '-' and ta == ('pt',) and tb == ('pt',)) else (('pt',) if ('pt',) in (ta, tb) else ('vec',))
            return '((%s %s %s), (%s %s %s))' % (comp(a, 1), op, comp(b, 1), comp(a, 2), op, comp(b, 2)), rt
        if ta == 'f' and tb == 'f':
            if op == '%':
                return '(fmod %s %s)' % (a, b), 'f'
            return '(%s %s %s)' % (a, op, b), 'f'
        raise Untranslatable('operator %s on %r, %r' % (op, ta, tb))

    def as_prop(self, e):
        if e[0] == 'bin':
            op, l, r = e[1], e[2], e[3]
            if op == '&&':
                return '(%s ∧ %s)' % (self.as_prop(l), self.as_prop(r))
            if op == '||':
                return '(%s ∨ %s)' % (self.as_prop(l), self.as_prop(r))
            if op in ('<', '>', '<=', '>='):
                a, ta = self.ex(l)
                b, tb = self.ex(r)
                if ta == 'n' and r[0] == 'num':
                    b = self.nat(r)
                if tb == 'n' and l[0] == 'num':
                    a = self.nat(l)
                if op == '<':
                    return '(%s < %s)' % (a, b)
                if op == '>':
                    return '(%s < %s)' % (b, a)
                if op == '<=':
                    return '(%s ≤ %s)' % (a, b)
                return '(%s ≤ %s)' % (b, a)
            if op in ('==', '!='):
                a, ta = self.ex(l)
                b, tb = self.ex(r)
                if ta in ('n', 'i') or tb in ('n', 'i'):
                    if r[0] == 'num':
                        b = self.nat(r)
                    if l[0] == 'num':
                        a = self.nat(l)
                    return '(%s %s %s)' % (a, '=' if op == '==' else '≠', b)
                if ta == 'b' and tb == 'b':
                    return '(%s %s %s)' % (a, '=' if op == '==' else '≠', b)
                return '((%s == %s) = %s)' % (a, b, 'true' if op == '==' else 'false')
        if e[0] == 'un' and e[1] == '!':
            return '(¬ %s)' % self.as_prop(e[2])
        t, ty = self.ex(e)
        if ty != 'b':
            raise Untranslatable('condition of type %r' % (ty,))
        return '(%s = true)' % t

    def as_bool(self, e):
        if e[0] == 'bin' and e[1] in ('&&', '||', '==', '!=', '<', '>', '<=', '>='):
            return '(decide %s)' % self.as_prop(e)
        if e[0] == 'un' and e[1] == '!':
            return '(decide %s)' % self.as_prop(e)
        t, ty = self.ex(e)
        if ty != 'b':
            raise Untranslatable('expected a bool')
        return t

    # ---- patterns
    def bind(self, pat, term, ty):
        """returns (lean pattern text, list of (name, term, ty) to add to env)"""
        if pat[0] == 'pid':
            return pat[1], [(pat[1], pat[1], ty)]
        if pat[0] == 'pwild':
            return '_', []
        if pat[0] == 'ptuple' and isinstance(ty, tuple) and ty[0] == 'tup' and len(ty[1]) == len(pat[1]):
            parts = [self.bind(p, None, t) for p, t in zip(pat[1], ty[1])]
            return '(' + ', '.join(x[0] for x in parts) + ')', [b for x in parts for b in x[1]]
        raise Untranslatable('pattern %r for %r' % (pat[0], ty))

    def match_pat(self, pat, ty):
        if pat[0] == 'pwild':
            return '_', []
        if pat[0] == 'pid':
            return pat[1], [(pat[1], pat[1], ty)]
        if pat[0] == 'ppath' and pat[1] == ['None']:
            return 'none', []
        if pat[0] == 'pcall' and pat[1] == ['Some'] and len(pat[2]) == 1 and isinstance(ty, tuple) and ty[0] == 'opt':
            inner, bs = self.match_pat(pat[2][0], ty[1])
            return '(some %s)' % inner, bs
        if pat[0] == 'ptuple' and isinstance(ty, tuple) and ty[0] == 'tup' and len(ty[1]) == len(pat[1]):
            parts = [self.match_pat(p, t) for p, t in zip(pat[1], ty[1])]
            return '(' + ', '.join(x[0] for x in parts) + ')', [b for x in parts for b in x[1]]
        raise Untranslatable('match pattern %r for %r' % (pat, ty))

    def match(self, scrut, arms):
        """`match` over options / tuples of options / scalars with guards: the scrutinee's constructor
        combinations are enumerated, and in each the arms that can match are tried in source order
        (guards become an if-chain), which is Rust's semantics and is total in Lean."""
        s, sty = self.ex(scrut)
        self.fresh += 1
        tag = self.fresh
        counter = [0]

        def cases(ty):
            if isinstance(ty, tuple) and ty[0] == 'opt':
                return [('none',)] + [('some', sub) for sub in cases(ty[1])]
            if isinstance(ty, tuple) and ty[0] == 'tup':
                out = [[]]
                for t in ty[1]:
                    out = [o + [c] for o in out for c in cases(t)]
                return [('tup', o) for o in out]
            return [('var', ty)]

        def name_shape(sh):
            # give every variable position a fresh Lean name; returns (shape with names, pattern text, term text)
            if sh[0] == 'none':
                return sh, 'none', 'none'
            if sh[0] == 'some':
                sub, p, t = name_shape(sh[1])
                return ('some', sub), '(some %s)' % p, '(some %s)' % t
            if sh[0] == 'tup':
                parts = [name_shape(x) for x in sh[1]]
                return ('tup', [x[0] for x in parts]), '(' + ', '.join(x[1] for x in parts) + ')', '(' + ', '.join(x[2] for x in parts) + ')'
            counter[0] += 1
            n = 'm%d_%d' % (tag, counter[0])
            return ('var', sh[1], n), n, n

        def shape_term(sh):
            if sh[0] == 'none':
                return 'none'
            if sh[0] == 'some':
                return '(some %s)' % shape_term(sh[1])
            if sh[0] == 'tup':
                return '(' + ', '.join(shape_term(x) for x in sh[1]) + ')'
            return sh[2]

        def shape_type(sh):
            if sh[0] == 'none':
                return ('opt', 'f')
            if sh[0] == 'some':
                return ('opt', shape_type(sh[1]))
            if sh[0] == 'tup':
                return ('tup', [shape_type(x) for x in sh[1]])
            return sh[1]

        def matches(pat, sh):
            if pat[0] == 'pwild':
                return []
            if pat[0] == 'pid':
                return [(pat[1], shape_term(sh), shape_type(sh))]
            if pat[0] == 'ppath' and pat[1] == ['None']:
                return [] if sh[0] == 'none' else None
            if pat[0] == 'pcall' and pat[1] == ['Some'] and len(pat[2]) == 1:
                return matches(pat[2][0], sh[1]) if sh[0] == 'some' else None
            if pat[0] == 'ptuple':
                if sh[0] != 'tup' or len(sh[1]) != len(pat[1]):
                    raise Untranslatable('tuple pattern against %r' % (sh[0],))
                out = []
                for pp, ss in zip(pat[1], sh[1]):
                    m = matches(pp, ss)
                    if m is None:
                        return None
                    out += m
                return out
            raise Untranslatable('match pattern %r' % (pat[0],))

        rty = [None]

        def chain(sh, i):
            while i < len(arms):
                pat, guard, body = arms[i]
                b = matches(pat, sh)
                if b is None:
                    i += 1
                    continue
                sub = Emitter(self.env, self.structs, self.methods, self.consts, self.selfty)
                sub.fresh = self.fresh + 100
                lets = ''
                for n, t, ty in b:
                    sub.env[n] = (n, ty)
                    lets += 'let %s := %s; ' % (n, t)
                bt, bty = sub.ex(body)
                rty[0] = bty
                if guard is None:
                    return '(%s%s)' % (lets, bt) if lets else bt
                g = sub.as_prop(guard)
                rest = chain(sh, i + 1)
                return '(%sif %s then %s else %s)' % (lets, g, bt, rest)
            raise Untranslatable('non-exhaustive match (every arm that can match is guarded)')

        alts = []
        for sh in cases(sty):
            nsh, ptxt, _ = name_shape(sh)
            alts.append((ptxt, chain(nsh, 0), nsh))
        if len(alts) == 1 and alts[0][2][0] == 'var':
            return '(let %s := %s; %s)' % (alts[0][0], s, alts[0][1]), rty[0]
        return '(match %s with %s)' % (s, ' '.join('| %s => %s' % (a[0], a[1]) for a in alts)), rty[0]

    # ---- blocks
    def blk(self, b):
        assert b[0] == 'block'
        return self.stmts(list(b[1]), b[2])

    # ---- `for` loops: two shapes are translated
    #   * search loop: the only effect of the (possibly nested) body is `return <constant>`
    #       for p in it { … if c { return K; } … }  rest      ==>   if it.any (fun p => …) then K else rest
    #   * accumulation loop: the only effect is `acc += e` on ONE local `let mut acc`
    #       for p in it { … acc += e; … }  rest               ==>   let acc := it.foldl (fun acc p => …) acc; rest
    @staticmethod
    def body_stmts(b):
        """statements of a loop / branch body; a trailing `if` without `else` is a statement"""
        st = list(b[1])
        if b[2] is not None:
            if b[2][0] == 'if' and b[2][3] is None:
                st.append(('expr', b[2]))
            else:
                raise Untranslatable('loop body with a value')
        return st

    @staticmethod
    def is_continue_guard(st):
        """`if c { continue; }` (no else): the condition under which the rest of the loop body is skipped"""
        if st[0] == 'expr' and st[1][0] == 'if' and st[1][3] is None:
            blk = st[1][2]
            body = list(blk[1]) + ([('expr', blk[2])] if blk[2] is not None else [])
            if len(body) == 1 and body[0][0] == 'expr' and body[0][1] == ('path', ['continue']):
                return st[1][1]
        return None

    def loop_effects(self, b, rets, assigns):
        for st in self.body_stmts(b):
            if st[0] == 'return':
                rets.append(st[1])
            elif st[0] == 'assign':
                assigns.append(st)
            elif st[0] == 'for':
                self.loop_effects(st[3], rets, assigns)
            elif self.is_continue_guard(st) is not None:
                pass
            elif st[0] == 'expr' and st[1][0] == 'if':
                self.loop_effects(st[1][2], rets, assigns)
                if st[1][3] is not None:
                    raise Untranslatable('else branch inside a loop')
            elif st[0] == 'let':
                pass
            elif st[0] == 'expr' and st[1][0] == 'macro' and st[1][1] in LOGGING:
                pass
            else:
                raise Untranslatable('statement %r inside a loop' % (st[0] if st[0] != 'expr' else st[1][0],))

    def sub(self):
        e = Emitter(self.env, self.structs, self.methods, self.consts, self.selfty)
        e.fresh = self.fresh
        e.digits = set(getattr(self, 'digits', set()))
        e.errors = getattr(self, 'errors', {})
        for k in ('aux', 'auxn', 'fn_name', 'err_type', 'unwrap_tail', 'helper_src', 'helper_depth'):
            if hasattr(self, k):
                setattr(e, k, getattr(self, k))
        return e

    def loop_binder(self, pat, it):
        t, ty = self.ex(it)
        if not (isinstance(ty, tuple) and ty[0] == 'list'):
            raise Untranslatable('for loop over %r' % (ty,))
        sub = self.sub()
        ptxt, binds = self.bind(pat, None, ty[1])
        for n, tt, tty in binds:
            sub.env[n] = (tt, tty)
        return t, ptxt, sub

    def any_body(self, st):
        """Bool term: does executing these statements reach a `return`?"""
        if not st:
            return 'false'
        s, rest = st[0], st[1:]
        if s[0] == 'return':
            return 'true'
        if s[0] == 'expr' and s[1][0] == 'macro':
            return self.any_body(rest)
        if s[0] == 'let':
            t, ty = self.ex(s[2])
            ptxt, binds = self.bind(s[1], t, ty)
            sub = self.sub()
            for n, tt, tty in binds:
                sub.env[n] = (tt, tty)
            return '(let %s := %s; %s)' % (ptxt, t, sub.any_body(rest))
        g = self.is_continue_guard(s)
        if g is not None:
            # the rest of this iteration runs only when the guard is false
            return '(if %s then false else %s)' % (self.as_prop(g), self.any_body(rest))
        if s[0] == 'for':
            t, ptxt, sub = self.loop_binder(s[1], s[2])
            here = '(%s.any fun %s => %s)' % (t, ptxt, sub.any_body(self.body_stmts(s[3])))
        elif s[0] == 'expr' and s[1][0] == 'if':
            here = '(if %s then %s else false)' % (self.as_prop(s[1][1]), self.any_body(self.body_stmts(s[1][2])))
        else:
            raise Untranslatable('statement inside a search loop')
        r = self.any_body(rest)
        return here if r == 'false' else '(%s || %s)' % (here, r)

    def acc_body(self, st, acc):
        """term for the value of the accumulator after executing these statements"""
        if not st:
            return acc
        s, rest = st[0], st[1:]
        if s[0] == 'expr' and s[1][0] == 'macro':
            return self.acc_body(rest, acc)
        if s[0] == 'let':
            t, ty = self.ex(s[2])
            ptxt, binds = self.bind(s[1], t, ty)
            sub = self.sub()
            for n, tt, tty in binds:
                sub.env[n] = (tt, tty)
            return '(let %s := %s; %s)' % (ptxt, t, sub.acc_body(rest, acc))
        if s[0] == 'for':
            t, ptxt, sub = self.loop_binder(s[1], s[2])
            return '(let %s := (%s.foldl (fun %s %s => %s) %s); %s)' % (
                acc, t, acc, ptxt, sub.acc_body(self.body_stmts(s[3]), acc), acc, self.acc_body(rest, acc))
        g = self.is_continue_guard(s)
        if g is not None:
            return '(if %s then %s else %s)' % (self.as_prop(g), acc, self.acc_body(rest, acc))
        if s[0] == 'assign' and s[1] == ('path', [acc]) and s[2] in ('+=', '-=', '*='):
            v, vty = self.ex(s[3])
            return '(let %s := (%s %s %s); %s)' % (acc, acc, s[2][0], v, self.acc_body(rest, acc))
        if s[0] == 'expr' and s[1][0] == 'if':
            inner = self.acc_body(self.body_stmts(s[1][2]), acc)
            return '(let %s := (if %s then %s else %s); %s)' % (acc, self.as_prop(s[1][1]), inner, acc, self.acc_body(rest, acc))
        raise Untranslatable('statement inside an accumulation loop')

    def for_loop(self, s, rest, tail):
        rets, assigns = [], []
        self.loop_effects(s[3], rets, assigns)
        if rets and not assigns:
            if any(r != rets[0] for r in rets) or rets[0] is None or rets[0][0] not in ('path', 'num'):
                raise Untranslatable('search loop returning different / non-constant values')
            k, kty = self.ex(rets[0])
            found = self.any_body([s])
            r, rty = self.stmts(rest, tail)
            return '(if (%s = true) then %s else %s)' % (found, k, r), rty
        if assigns and not rets:
            names = set()
            for a in assigns:
                if a[1][0] != 'path' or len(a[1][1]) != 1:
                    raise Untranslatable('assignment to other than a local in a loop')
                names.add(a[1][1][0])
            if len(names) != 1:
                raise Untranslatable('loop updating more than one local')
            acc = names.pop()
            if acc not in self.env or self.env[acc][1] != 'f':
                raise Untranslatable('loop accumulator is not a local f64')
            body = self.acc_body([s], acc)
            # `body` ends in the accumulator's name: continue with the rest of the function under that binding
            assert body.endswith('; %s)' % acc)
            r, rty = self.stmts(rest, tail)
            return body[:-len('%s)' % acc)] + r + ')', rty
        raise Untranslatable('loop that both returns and accumulates (or does neither)')

    # ---- imperative fragments: a statement block that updates a fixed tuple of mutable locals and may
    # `return` early.  Value: `(stopped : Bool, (v1, …, vn))`.
    def imp(self, st, vs):
        tup = '(' + ', '.join(vs) + ')'
        if not st:
            return '(false, %s)' % tup
        s, rest = st[0], st[1:]
        if s[0] == 'return':
            return '(true, %s)' % tup
        if s[0] == 'expr' and s[1][0] == 'macro':
            if s[1][1] in LOGGING:
                return self.imp(rest, vs)
            raise Untranslatable('macro ' + s[1][1])
        if s[0] == 'let':
            t, ty = self.ex(s[2])
            ptxt, binds = self.bind(s[1], t, ty)
            sub = self.sub()
            for n, tt, tty in binds:
                sub.env[n] = (tt, tty)
            return '(let %s := %s; %s)' % (ptxt, t, sub.imp(rest, vs))
        # effects through the vector of basis handles (shared parameter cells): `hs` and `heap` are rebound
        if s[0] == 'expr' and s[1][0] == 'mcall' and s[1][2] in ('set_sampled', 'reset_value'):
            idx = self.basis_ref(s[1][1])
            if idx is not None and 'hs' in vs and 'heap' in vs:
                if s[1][2] == 'set_sampled':
                    if len(s[1][3]) != 2:
                        raise Untranslatable('set_sampled arity')
                    step, _ = self.ex(s[1][3][1])
                    return ('(let hp := (Handle.setSampled (hs[%s]?.getD dummyHandle) heap %s draw); '
                            'let hs := hs.setIfInBounds %s hp.1; let heap := hp.2; %s)') % (idx, step, idx, self.imp(rest, vs))
                return '(let heap := (Handle.resetValue (hs[%s]?.getD dummyHandle) heap); %s)' % (idx, self.imp(rest, vs))
        if s[0] == 'assign' and s[2] == '=' and s[1][0] == 'path' and len(s[1][1]) == 1 and s[1][1][0] in vs and s[3][0] == 'match':
            x = s[1][1][0]
            sc, sty = self.ex(s[3][1])
            if not (isinstance(sty, tuple) and sty[0] == 'opt'):
                raise Untranslatable('assignment from a match on a non-option')
            alts = []
            seen = set()
            for pat, guard, body in s[3][2]:
                if guard is not None:
                    raise Untranslatable('guard in an effectful match')
                sub = self.sub()
                if pat[0] == 'pcall' and pat[1] == ['Some'] and len(pat[2]) == 1 and pat[2][0][0] == 'pid':
                    v = pat[2][0][1]
                    sub.env[v] = (v, sty[1])
                    ptxt = 'some %s' % v
                    key = 'some'
                elif pat[0] == 'ppath' and pat[1] == ['None']:
                    ptxt, key = 'none', 'none'
                else:
                    raise Untranslatable('pattern in an effectful match')
                if key in seen:
                    raise Untranslatable('repeated arm')
                seen.add(key)
                if body[0] == 'block':
                    st2 = list(body[1])
                    if body[2] is None:
                        raise Untranslatable('arm block without a value')
                    st2.append(('assign', ('path', [x]), '=', body[2]))
                else:
                    st2 = [('assign', ('path', [x]), '=', body)]
                alts.append('| %s => %s' % (ptxt, sub.imp(st2 + rest, vs)))
            if seen != {'some', 'none'}:
                raise Untranslatable('effectful match is not exhaustive over Some/None')
            return '(match %s with %s)' % (sc, ' '.join(alts))
        if s[0] == 'assign' and s[1][0] == 'path' and len(s[1][1]) == 1 and s[1][1][0] in vs:
            x = s[1][1][0]
            xty = self.env[x][1]
            if s[3][0] == 'num' and xty == 'n':
                v = self.nat(s[3])
            else:
                v, vty = self.ex(s[3])
            val = v if s[2] == '=' else '(%s %s %s)' % (x, s[2][0], v)
            return '(let %s := %s; %s)' % (x, val, self.imp(rest, vs))
        if s[0] == 'expr' and s[1][0] in ('if', 'iflet'):
            e = s[1]
            if e[0] == 'if':
                a = self.imp(self.blk_stmts(e[2]), vs)
                b = self.imp(self.blk_stmts(e[3]) if e[3] is not None else [], vs)
                here = '(if %s then %s else %s)' % (self.as_prop(e[1]), a, b)
            else:
                sc, sty = self.ex(e[2])
                pat = e[1]
                if not (pat[0] == 'pcall' and pat[1] == ['Some'] and len(pat[2]) == 1 and pat[2][0][0] == 'pid'
                        and isinstance(sty, tuple) and sty[0] == 'opt'):
                    raise Untranslatable('if let other than `Some(x) = <option>`')
                x = pat[2][0][1]
                sub = self.sub()
                sub.env[x] = (x, sty[1])
                a = sub.imp(self.blk_stmts(e[3]), vs)
                b = self.imp(self.blk_stmts(e[4]) if e[4] is not None else [], vs)
                here = '(match %s with | some %s => %s | none => %s)' % (sc, x, a, b)
            if not rest:
                return here
            return '(match %s with | (true, imp_v) => (true, imp_v) | (false, %s) => %s)' % (here, tup, self.imp(rest, vs))
        raise Untranslatable('statement %r in an imperative fragment' % (s[0] if s[0] != 'expr' else s[1][0],))

    # ---- imperative fragments that may fail (`bail!`): value `Except ParseErr <tuple of the variables in out>`
    @staticmethod
    def tupv(names):
        return '()' if not names else (names[0] if len(names) == 1 else '(' + ', '.join(names) + ')')

    def assigned(self, st, acc):
        """locals declared OUTSIDE these statements that are assigned (directly or through an index) in them"""
        got, local = set(), set()
        for s in st:
            if s[0] == 'let':
                def names(p):
                    if p[0] == 'pid':
                        local.add(p[1])
                    elif p[0] == 'ptuple':
                        for q in p[1]:
                            names(q)
                names(s[1])
            elif s[0] == 'assign':
                tgt = s[1]
                if tgt[0] == 'index':
                    tgt = tgt[1]
                if tgt[0] == 'path' and len(tgt[1]) == 1:
                    got.add(tgt[1][0])
                else:
                    raise Untranslatable('assignment target')
            elif s[0] == 'expr' and s[1][0] == 'mcall' and s[1][2] == 'push' and s[1][1][0] == 'path' and len(s[1][1][1]) == 1:
                got.add(s[1][1][1][0])
            elif s[0] == 'for':
                self.assigned(self.xstmts(s[3]), got)
            elif s[0] == 'expr' and s[1][0] == 'if':
                self.assigned(self.xstmts(s[1][2]), got)
                if s[1][3] is not None:
                    self.assigned(self.xstmts(s[1][3]), got)
            elif s[0] == 'expr' and s[1][0] == 'match':
                for pat, guard, body in s[1][2]:
                    self.assigned(self.xstmts(body), got)
        acc |= (got - local)
        return acc

    @staticmethod
    def xstmts(b):
        """statements of a block / arm body in an `impx` fragment"""
        if b[0] != 'block':
            if b[0] == 'tuple' and not b[1]:
                return []
            return [('expr', b)]
        st = list(b[1])
        if b[2] is not None:
            st.append(('expr', b[2]))
        return st

    def impx(self, st, cur, out):
        if not st:
            return '(Except.ok %s)' % self.tupv(out)
        s, rest = st[0], st[1:]
        if s[0] == 'expr' and s[1][0] == 'tuple' and not s[1][1]:
            return self.impx(rest, cur, out)
        if s[0] == 'expr' and s[1][0] == 'macro' and s[1][1] in LOGGING:
            return self.impx(rest, cur, out)
        if s[0] == 'expr' and s[1][0] == 'bail':
            args = s[1][1]
            if not args or args[0][0] != 'str' or args[0][1] not in self.errors:
                raise Untranslatable('bail! with an unknown message')
            ctor, nargs = self.errors[args[0][1]]
            if len(args) - 1 != nargs:
                raise Untranslatable('bail! arity')
            ats = [self.ex(a)[0] for a in args[1:]]
            return '(Except.error (%s))' % ' '.join([ctor] + ats)
        if s[0] == 'let':
            t, ty = self.ex(s[2])
            if len(s) > 3 and s[3] == 'Option<char>' and t == 'none':
                t, ty = '(none : Option Char)', ('opt', 'c')
            if len(s) > 3 and s[3] in VEC_TYPES and ty == ('list', None):
                t, ty = '([] : List (%s))' % VEC_TYPES[s[3]][0], ('list', VEC_TYPES[s[3]][1])
            ptxt, binds = self.bind(s[1], t, ty)
            sub = self.sub()
            cur2 = list(cur)
            for n, tt, tty in binds:
                sub.env[n] = (tt, tty)
                if n not in cur2:
                    cur2.append(n)
            return '(let %s := %s; %s)' % (ptxt, t, sub.impx(rest, cur2, out))
        if s[0] == 'assign' and s[1][0] == 'path' and len(s[1][1]) == 1 and s[1][1][0] in cur:
            x = s[1][1][0]
            xty = self.env[x][1]
            v, vty = self.ex(s[3])
            if s[2] != '=':
                v = '(%s %s %s)' % (x, s[2][0], v)
            elif isinstance(xty, tuple) and xty[0] == 'opt' and isinstance(vty, tuple) and vty[0] == 'opt' and xty != vty:
                # `let mut operator: Option<char> = None` was typed by its initialiser: refine it now
                sub = self.sub()
                sub.env[x] = (x, vty)
                return '(let %s := %s; %s)' % (x, v, sub.impx(rest, cur, out))
            return '(let %s := %s; %s)' % (x, v, self.impx(rest, cur, out))
        if s[0] == 'assign' and s[2] == '=' and s[1][0] == 'index' and s[1][1][0] == 'path' and len(s[1][1][1]) == 1 \
                and s[1][1][1][0] in cur and self.env[s[1][1][1][0]][1] == T_MAT and s[1][2][0] == 'tuple' and len(s[1][2][1]) == 2:
            m = s[1][1][1][0]
            i = self.nat(s[1][2][1][0])
            j = self.nat(s[1][2][1][1])
            v, vty = self.ex(s[3])
            return '(let %s := (Mat3.setEntry %s %s %s %s); %s)' % (m, m, i, j, v, self.impx(rest, cur, out))
        if s[0] == 'expr' and s[1][0] == 'mcall' and s[1][2] == 'push' and len(s[1][3]) == 1 and s[1][1][0] == 'path' \
                and len(s[1][1][1]) == 1 and s[1][1][1][0] in cur:
            x = s[1][1][1][0]
            v, vty = self.ex(s[1][3][0])
            if self.env[x][1] != ('list', vty):
                raise Untranslatable('push of %r onto %r' % (vty, self.env[x][1]))
            return '(let %s := (%s ++ [%s]); %s)' % (x, x, v, self.impx(rest, cur, out))
        if s[0] == 'for' or (s[0] == 'expr' and s[1][0] in ('if', 'match')):
            inner = [s]
            asg = sorted(self.assigned(inner, set()))
            if any(a not in cur for a in asg):
                raise Untranslatable('assignment to an undeclared local')
            here = self.impx_compound(s, cur, asg)
            if not rest and asg == list(out):
                return here
            return '(match %s with | Except.error imp_e => Except.error imp_e | Except.ok %s => %s)' % (
                here, self.tupv(asg) if asg else '_', self.impx(rest, cur, out))
        raise Untranslatable('statement %r in a fallible imperative fragment' % (s[0] if s[0] != 'expr' else s[1][0],))

    def char_cond(self, pat, sc, sty):
        """condition under which a scalar / char pattern matches, and the bindings it makes"""
        if pat[0] == 'pwild':
            return None, []
        if pat[0] == 'pid':
            return None, [(pat[1], sc, sty)]
        if pat[0] == 'pchr' and sty == 'c':
            return '(%s = %s)' % (sc, pat[1]), []
        if pat[0] == 'prange' and sty == 'c':
            return '(%s ≤ %s ∧ %s ≤ %s)' % (pat[1], sc, sc, pat[2]), []
        raise Untranslatable('pattern %r on %r' % (pat[0], sty))

    def impx_compound(self, s, cur, asg):
        if s[0] == 'for':
            t, ptxt, sub = self.loop_binder(s[1], s[2])
            body = sub.impx(self.xstmts(s[3]), cur, asg)
            # the loop body becomes a definition of its own (`<fn>_loop<k>`): its free locals are parameters
            _, lty = self.ex(s[2])
            bound = set(asg) | set(re.findall(r'[A-Za-z_]\w*', ptxt))
            free = [n for n, (tt, tty) in self.env.items()
                    if tt == n and n not in bound and re.search(r'(?<![\w.])%s(?![\w])' % re.escape(n), body)]
            self.auxn[0] += 1
            name = '%s_loop%d' % (self.fn_name, self.auxn[0])
            sty = ' × '.join('(%s)' % lean_ty(self.env[a][1]) for a in asg) if asg else 'Unit'
            params = ' '.join('(%s : %s)' % (n, lean_ty(self.env[n][1])) for n in free)
            self.aux.append('/-- body of loop %d of `%s` -/\ndef %s %s : (%s) → (%s) → Except %s (%s) :=\n  fun %s %s => %s\n' % (
                self.auxn[0], self.fn_name, name, params, sty, lean_ty(lty[1]), self.err_type, sty,
                self.tupv(asg) if asg else '_', ptxt, body))
            return '(List.foldlM (%s) %s %s)' % (' '.join([name] + free), self.tupv(asg), t)
        e = s[1]
        if e[0] == 'if':
            a = self.impx(self.xstmts(e[2]), cur, asg)
            b = self.impx(self.xstmts(e[3]) if e[3] is not None else [], cur, asg)
            return '(if %s then %s else %s)' % (self.as_prop(e[1]), a, b)
        # match on a scalar or a character: an if-chain in source order
        sc, sty = self.ex(e[1])
        if sty not in ('c', 'n', 'i', 'f'):
            raise Untranslatable('statement match on %r' % (sty,))
        # group the alternatives of one arm (`'*' | '/' => body`): the parser duplicated the body
        out = '(Except.ok %s)' % self.tupv(asg)      # no arm matches: unreachable, Rust checks exhaustiveness
        chain = []
        for pat, guard, body in e[2]:
            cond, binds = self.char_cond(pat, sc, sty)
            sub = self.sub()
            for n, tt, tty in binds:
                sub.env[n] = (tt, tty)
            if pat[0] == 'prange' and pat[1] == "'0'" and pat[2] == "'9'" and e[1][0] == 'path' and len(e[1][1]) == 1:
                sub.digits.add(e[1][1][0])
            conds = [c for c in (cond, sub.as_prop(guard) if guard is not None else None) if c is not None]
            bt = sub.impx(self.xstmts(body), cur, asg)
            chain.append((conds, bt))
        # the last arm without a condition closes the chain
        term = None
        for conds, bt in reversed(chain):
            if not conds:
                term = bt
            else:
                if term is None:
                    term = out
                term = '(if %s then %s else %s)' % (' ∧ '.join(conds), bt, term)
        return term

    def basis_ref(self, e):
        """`basis.get(i).expect(..)` / `basis.get_mut(i).expect(..)` -> the Lean term of the index"""
        if e[0] == 'mcall' and e[2] == 'expect' and e[1][0] == 'mcall' and e[1][2] in ('get', 'get_mut') \
                and e[1][1] == ('path', ['basis']) and len(e[1][3]) == 1:
            t, ty = self.ex(e[1][3][0])
            if ty == 'n':
                return t
        return None

    @staticmethod
    def blk_stmts(b):
        st = list(b[1])
        if b[2] is not None:
            if b[2][0] in ('if', 'iflet'):
                st.append(('expr', b[2]))
            else:
                raise Untranslatable('block with a value in an imperative fragment')
        return st

    def returns(self, b):
        """does this block always end in `return`?"""
        if b is None:
            return False
        st, tail = b[1], b[2]
        if st and st[-1][0] == 'return' and tail is None:
            return True
        return False

    def stmts(self, st, tail):
        if not st:
            if tail is None:
                raise Untranslatable('block without a value')
            return self.ex(tail)
        s = st[0]
        rest = st[1:]
        if s[0] == 'return':
            return self.ex(s[1])
        if s[0] == 'expr' and s[1][0] == 'macro':
            if s[1][1] in LOGGING:
                return self.stmts(rest, tail)
            raise Untranslatable('macro ' + s[1][1])
        if s[0] == 'let':
            if s[2][0] == 'macro':
                raise Untranslatable('macro value')
            t, ty = self.ex(s[2])
            ptxt, binds = self.bind(s[1], t, ty)
            sub = Emitter(self.env, self.structs, self.methods, self.consts, self.selfty)
            for n, tt, tty in binds:
                sub.env[n] = (tt, tty)
            r, rty = sub.stmts(rest, tail)
            return '(let %s := %s; %s)' % (ptxt, t, r), rty
        if s[0] == 'assign' and s[2] == '=' and s[1][0] == 'field' and s[1][1][0] == 'path' and len(s[1][1][1]) == 1:
            v = s[1][1][1][0]
            if v in self.env and self.env[v][1] in (('pt',), ('vec',)) and s[1][2] in ('x', 'y'):
                cur, ty = self.env[v]
                val, _ = self.ex(s[3])
                new = '(%s, %s)' % (val, comp(cur, 2)) if s[1][2] == 'x' else '(%s, %s)' % (comp(cur, 1), val)
                sub = Emitter(self.env, self.structs, self.methods, self.consts, self.selfty)
                sub.env[v] = (v, ty)
                r, rty = sub.stmts(rest, tail)
                return '(let %s := %s; %s)' % (v, new, r), rty
        if s[0] == 'for':
            return self.for_loop(s, rest, tail)
        if s[0] == 'expr' and s[1][0] == 'if' and s[1][3] is None and self.returns(s[1][2]):
            c = self.as_prop(s[1][1])
            a, ta = self.blk(s[1][2])
            b, tb = self.stmts(rest, tail)
            return '(if %s then %s else %s)' % (c, a, b), ta
        if s[0] == 'expr' and s[1][0] == 'if' and not rest and tail is None and s[1][3] is not None:
            return self.ex(s[1])
        raise Untranslatable('statement %r' % (s[0] if s[0] != 'expr' else s[1][0],))


def lean_ty(ty):
    if ty == 'f':
        return 'α'
    if ty == 'n':
        return 'Nat'
    if ty == 'i':
        return 'Int'
    if ty == 'b':
        return 'Bool'
    if ty == 'c':
        return 'Char'
    if ty == ('str',):
        return 'List Char'
    if ty == T_MAT:
        return 'Mat3 α'
    if ty in (('pt',), ('vec',)):
        return 'α × α'
    if isinstance(ty, tuple) and ty[0] == 'opt':
        return 'Option (%s)' % lean_ty(ty[1])
    if isinstance(ty, tuple) and ty[0] == 'list' and ty[1] is not None:
        return 'List (%s)' % lean_ty(ty[1])
    if isinstance(ty, tuple) and ty[0] == 'tup':
        return ' × '.join('(%s)' % lean_ty(t) for t in ty[1])
    if isinstance(ty, tuple) and ty[0] == 'st' and ty[1] in ('Line2', 'Atom2', 'LJ2'):
        return '%s α' % ty[1]
    raise Untranslatable('no Lean type for %r' % (ty,))


# ----------------------------------------------------------------------------- function extraction

def impl_block(src, header_re):
    m = re.search(header_re, src)
    if not m:
        return None
    i = src.index('{', m.end() - 1)
    return src[i + 1:match_brace(src, i)]


def fn_text(src, name):
    """(parameter text, body text) of the first `fn name` in src"""
    m = re.search(r'\bfn\s+' + re.escape(name) + r'\b\s*(?:<[^>]*>)?\s*\(', src)
    if not m:
        return None
    j = match_brace(src, m.end() - 1)
    params = src[m.end():j]
    k = j + 1
    depth = 0
    while k < len(src):
        c = src[k]
        if c in '(<[':
            depth += 1
        elif c in ')>]' and not (c == '>' and src[k - 1] == '-'):
            depth -= 1
        elif c == '{' and depth <= 0:
            break
        elif c == ';' and depth <= 0:
            return None
        k += 1
    e = match_brace(src, k)
    return params, src[k + 1:e]


VARS = ('variable {α : Type} [Add α] [Sub α] [Mul α] [Div α] [Neg α] [LT α] [DecidableLT α] [LE α]\n'
        '         [DecidableLE α] [BEq α] [NatCast α] [IntCast α] [Transc α] [FModLike α] [FMin α]')

ST_ATOM = {'position': ('({s}.x, {s}.y)', ('pt',)), 'radius': ('{s}.r', 'f')}
ST_LJ = {'position': ('({s}.x, {s}.y)', ('pt',)), 'sigma': ('{s}.sigma', 'f'), 'epsilon': ('{s}.epsilon', 'f'),
         'cutoff': ('{s}.cutoff', ('opt', 'f'))}
ST_LINE = {'start': ('({s}.sx, {s}.sy)', ('pt',)), 'end': ('({s}.ex, {s}.ey)', ('pt',))}
ST_CELL = {'length': ('{s}.length', 'f'), 'ratio': ('{s}.ratio', 'f'), 'angle': ('{s}.angle', 'f')}
ST_HANDLE = {'min': ('{s}.min', 'f'), 'max': ('{s}.max', 'f'), 'old': ('{s}.old', 'f')}
ST_BUILDER = {'steps': ('{s}.steps', 'n'), 'inner_steps': ('{s}.inner', 'n'), 'kt_start': ('{s}.ktStart', 'f'),
              'kt_finish': ('{s}.ktFinish', ('opt', 'f')), 'kt_ratio': ('{s}.ktRatio', ('opt', 'f')),
              'max_step_size': ('{s}.maxStep', 'f')}
L_LINE = ('list', ('st', 'Line2'))
L_ATOM = ('list', ('st', 'Atom2'))
L_LJ = ('list', ('st', 'LJ2'))
L_MAT = ('list', ('st', 'Transform2'))
ST_SITE = {'x': ('{s}.x', 'f'), 'y': ('{s}.y', 'f'), 'angle': ('{s}.angle', 'f'), 'wyckoff': ('{s}', ('st', 'Wyckoff'))}
ST_STATE = {'cell': ('{s}.cell', ('st', 'Cell')), 'shape': ('{s}.shape', ('st', 'Shape')),
            'occupied_sites': ('{s}.sites', ('list', ('st', 'Site')))}
ST_CFG = {'kt_start': ('{s}.ktStart', 'f'), 'kt_ratio': ('{s}.ktRatio', 'f'), 'max_step_size': ('{s}.maxStep', 'f'),
          'steps': ('{s}.steps', 'n'), 'inner_steps': ('{s}.inner', 'n'), 'convergence': ('{s}.convergence', ('opt', 'f'))}
UNIT = ('()', 'unit')
STRUCTS = {'Cfg': ST_CFG, 'Site': ST_SITE, 'Wyckoff': {'symmetries': ('{s}.ops', L_MAT)}, 'State': ST_STATE,
           'LineShape': {'items': ('{s}', L_LINE), 'name': UNIT}, 'MolShape': {'items': ('{s}', L_ATOM), 'name': UNIT},
           'LJShape': {'items': ('{s}', L_LJ), 'name': UNIT},
           'Atom2': ST_ATOM, 'LJ2': ST_LJ, 'Line2': ST_LINE, 'Cell': ST_CELL, 'Handle': ST_HANDLE, 'Builder': ST_BUILDER}


class Group:
    def __init__(self, fname, imports, doc):
        self.fname = fname
        self.imports = imports
        self.doc = doc
        self.defs = []
        self.notes = []
        self.names = []

    def add(self, lean_name, sig, rty_lean, rel, rust_name, src, env, selfty=None, methods=None, consts=None, cut=None,
            post=None, imp_vars=None, impx=None, unwrap_tail=False, helpers=None):
        """translate `fn rust_name` found in `src` (already narrowed to the right impl block)"""
        self.names.append(lean_name)
        try:
            ft = fn_text(src, rust_name) if src is not None else None
            if ft is None:
                raise Untranslatable('fn %s not found' % rust_name)
            body = ft[1]
            if cut is not None:
                body = cut(body)
            ast = parse_fn_body(body)
            em = Emitter(env, STRUCTS, methods or {}, consts or {}, selfty)
            em.unwrap_tail = unwrap_tail
            HELPER['src'] = helpers if helpers is not None else FILES.get(rel.split(' ')[0].split(',')[0], src)
            HELPER['depth'] = 0
            if impx is not None:
                em.errors = impx
                em.digits = set()
                em.aux, em.auxn, em.fn_name = [], [0], lean_name
                em.err_type = re.match(r'Except\s+(\w+)', rty_lean).group(1)
                st = list(ast[1])
                tl = ast[2]
                if not (tl is not None and tl[0] == 'call' and tl[1] == ('path', ['Ok']) and len(tl[2]) == 1):
                    raise Untranslatable('fallible function not ending in Ok(..)')
                res = '__result'
                st.append(('let', ('pid', 'fn_result'), tl[2][0], None))
                term, ty = em.impx(st, [], ['fn_result']), None
            elif imp_vars is not None:
                term, ty = em.imp(em.blk_stmts(ast), imp_vars), None
            else:
                term, ty = em.blk(ast)
            if post is not None:
                term = post(term, ty)
            for a in getattr(em, 'aux', []):
                self.defs.append(a)
            self.defs.append('/-- `%s` (%s) -/\ndef %s %s : %s :=\n  %s\n' % (rust_name, rel, lean_name, sig, rty_lean, term))
        except Untranslatable as e:
            self.notes.append('%s (%s): %s' % (rust_name, rel, e))
        except Exception as e:  # parser bug = untranslated, never a crash
            self.notes.append('%s (%s): translator error %s: %s' % (rust_name, rel, type(e).__name__, e))

    def text(self, tag):
        L = ['/- GENERATED by tools/rs2lean.py from %s — do not edit. -/' % self.doc]
        L += ['import ' + i for i in self.imports]
        L += ['set_option linter.unusedVariables false', 'namespace PV.Gen', '', 'section', VARS, '']
        L += self.defs
        L += ['end', '', '/-- functions the translator could not translate (must be empty) -/',
              'def %sUntranslated : List String := [%s]' % (tag, ', '.join(lean_str(x) for x in self.notes)), '',
              'end PV.Gen', '']
        return '\n'.join(L)


def gen_fns(repo):
    out = {}

    # ---------------- shapes: atom2, line2, molecular_shape2 (C12, C02)
    g = Group('FnsDisc.lean', ['Model.Shapes'], 'src/shape/components/atom2.rs, src/shape/molecular_shape2.rs')
    atom = read(repo, 'src/shape/components/atom2.rs')
    a_int = impl_block(atom, r'impl\s+Intersect\s+for\s+Atom2\s*\{')
    env2 = lambda ty: {'self': ('self', ('st', ty)), 'other': ('other', ('st', ty))}
    g.add('atom2_intersects', '(self other : Atom2 α)', 'Bool', 'src/shape/components/atom2.rs', 'intersects', a_int, env2('Atom2'),
          post=lambda t, ty: t if ty == 'b' else t)
    g.add('atom2_area', '(self : Atom2 α)', 'α', 'src/shape/components/atom2.rs', 'area', a_int, {'self': ('self', ('st', 'Atom2'))})
    mol = read(repo, 'src/shape/molecular_shape2.rs')
    m_impl = impl_block(mol, r'impl\s+MolecularShape2\s*\{')
    g.add('overlap_area', '(r d : α)', 'α', 'src/shape/molecular_shape2.rs', 'overlap_area', m_impl, {'r': ('r', 'f'), 'd': ('d', 'f')})
    g.add('circle_overlap', '(a1 a2 : Atom2 α)', 'α', 'src/shape/molecular_shape2.rs', 'circle_overlap', m_impl,
          {'a1': ('a1', ('st', 'Atom2')), 'a2': ('a2', ('st', 'Atom2'))}, selfty='Mol',
          methods={('Mol', 'overlap_area'): ('overlap_area', 'f')})
    out[g.fname] = g.text('fnsDisc')

    g = Group('FnsLine.lean', ['Model.Shapes'], 'src/shape/components/line2.rs')
    line = read(repo, 'src/shape/components/line2.rs')
    l_impl = impl_block(line, r'impl\s+Line2\s*\{')
    l_int = impl_block(line, r'impl\s+Intersect\s+for\s+Line2\s*\{')
    g.add('line2_dx', '(self : Line2 α)', 'α', 'src/shape/components/line2.rs', 'dx', l_impl, {'self': ('self', ('st', 'Line2'))})
    g.add('line2_dy', '(self : Line2 α)', 'α', 'src/shape/components/line2.rs', 'dy', l_impl, {'self': ('self', ('st', 'Line2'))})
    mt = re.search(r'const\s+TOLERANCE\s*:\s*f64\s*=\s*([^;]+);', line)
    consts = {}
    if mt:
        try:
            consts['Self::TOLERANCE'] = (lit(mt.group(1).strip()), 'f')
        except Exception:
            pass
    lm = {('Line2', 'dx'): ('line2_dx', 'f'), ('Line2', 'dy'): ('line2_dy', 'f')}
    g.add('line2_intersects', '(self other : Line2 α)', 'Bool', 'src/shape/components/line2.rs', 'intersects', l_int, env2('Line2'),
          selfty='Line2', methods=lm, consts=consts)
    out[g.fname] = g.text('fnsLine')

    # ---------------- the `Mul` impls of the component types with a placement (`*_ops.rs`, C12, C13)
    g = Group('FnsOps.lean', ['Model.Shapes'], 'src/shape/components/{atom2,line2,lj2}_ops.rs')
    INLINE_PT[0] = True
    for comp_name, lname in (('Atom2', 'atom2'), ('Line2', 'line2'), ('LJ2', 'lj2')):
        rel = 'src/shape/components/%s_ops.rs' % lname
        src_ops = read(repo, rel)
        impls = re.findall(r'binop_impl_all!\(\s*Mul\s*,\s*mul\s*;\s*self\s*:\s*(\w+)\s*,\s*rhs\s*:\s*(\w+)\s*,\s*Output\s*=\s*(\w+)\s*;\s*\[ref\s+ref\]\s*=>\s*\{', src_ops)
        for (lhs, rhs, outty) in impls:
            side = 'left' if lhs == 'Transform2' else 'right'
            m = re.search(r'binop_impl_all!\(\s*Mul\s*,\s*mul\s*;\s*self\s*:\s*%s\s*,\s*rhs\s*:\s*%s\s*,[^;]*;\s*\[ref\s+ref\]\s*=>\s*\{' % (lhs, rhs), src_ops)
            body = src_ops[m.end():match_brace(src_ops, m.end() - 1)]
            fake = 'fn op_body(&self) -> X {' + body + '}'
            tymap = {'Transform2': (T_MAT, 'Mat3 α'), comp_name: (('st', comp_name), '%s α' % comp_name)}
            if lhs not in tymap or rhs not in tymap or outty != comp_name:
                g.notes.append('%s: unexpected operand types %s * %s -> %s' % (rel, lhs, rhs, outty))
                continue
            g.add('%s_mul_%s' % (lname, side), '(self : %s) (rhs : %s)' % (tymap[lhs][1], tymap[rhs][1]), '%s α' % comp_name, rel,
                  'op_body', fake, {'self': ('self', tymap[lhs][0]), 'rhs': ('rhs', tymap[rhs][0])})
        if len(impls) != 2:
            g.notes.append('%s: %d `Mul` impls found, expected 2' % (rel, len(impls)))
    INLINE_PT[0] = False
    out[g.fname] = g.text('fnsOps')

    # ---------------- shapes as lists of components (C12, C01, C02)
    g = Group('FnsLineShape.lean', ['Model.Shapes', 'Generated.FnsLine', 'Generated.FnsOps'], 'src/shape/line_shape.rs')
    ls = read(repo, 'src/shape/line_shape.rs')
    ls_int = impl_block(ls, r'impl\s+Intersect\s+for\s+LineShape\s*\{')
    ls_shape = impl_block(ls, r'impl\s+Shape\s+for\s+LineShape\s*\{')
    ident = lambda r, a: r
    lsm = {('LineShape', 'iter'): (ident, L_LINE), ('LineShape', 'into_iter'): (ident, L_LINE),
           ('Line2', 'intersects'): ('line2_intersects', 'b')}
    lsenv = {'self': ('self', ('st', 'LineShape')), 'other': ('other', ('st', 'LineShape'))}
    g.add('lineshape_intersects', '(self other : List (Line2 α))', 'Bool', 'src/shape/line_shape.rs', 'intersects', ls_int, lsenv, methods=lsm)
    g.add('lineshape_area', '(self : List (Line2 α))', 'α', 'src/shape/line_shape.rs', 'area', ls_int, lsenv, methods=lsm)
    g.add('lineshape_enclosing_radius', '(self : List (Line2 α))', 'α', 'src/shape/line_shape.rs', 'enclosing_radius', ls_shape, lsenv, methods=lsm)
    g.add('lineshape_transform', '(self : List (Line2 α)) (transform : Mat3 α)', 'List (Line2 α)', 'src/shape/line_shape.rs', 'transform', ls_shape,
          dict(lsenv, transform=('transform', T_MAT)), methods={**lsm, ('Line2', 'mul_right'): ('line2_mul_right', ('st', 'Line2'))})
    out[g.fname] = g.text('fnsLineShape')

    g = Group('FnsMolShape.lean', ['Model.Shapes', 'Generated.FnsDisc', 'Generated.FnsOps'], 'src/shape/molecular_shape2.rs')
    ms_int = impl_block(mol, r'impl\s+Intersect\s+for\s+MolecularShape2\s*\{')
    ms_shape = impl_block(mol, r'impl\s+Shape\s+for\s+MolecularShape2\s*\{')
    msm = {('MolShape', 'iter'): (ident, L_ATOM), ('MolShape', 'into_iter'): (ident, L_ATOM),
           ('Atom2', 'intersects'): ('atom2_intersects', 'b'), ('MolShape', 'circle_overlap'): ('circle_overlap', 'f')}
    msenv = {'self': ('self', ('st', 'MolShape')), 'other': ('other', ('st', 'MolShape'))}
    g.add('molshape_intersects', '(self other : List (Atom2 α))', 'Bool', 'src/shape/molecular_shape2.rs', 'intersects', ms_int, msenv, methods=msm)
    g.add('molshape_area', '(self : List (Atom2 α))', 'α', 'src/shape/molecular_shape2.rs', 'area', ms_int, msenv, selfty='MolShape', methods=msm)
    g.add('molshape_enclosing_radius', '(self : List (Atom2 α))', 'α', 'src/shape/molecular_shape2.rs', 'enclosing_radius', ms_shape, msenv, methods=msm)
    g.add('molshape_transform', '(self : List (Atom2 α)) (transform : Mat3 α)', 'List (Atom2 α)', 'src/shape/molecular_shape2.rs', 'transform', ms_shape,
          dict(msenv, transform=('transform', T_MAT)), methods={**msm, ('Atom2', 'mul_right'): ('atom2_mul_right', ('st', 'Atom2'))})
    out[g.fname] = g.text('fnsMolShape')

    g = Group('FnsLJShape.lean', ['Model.Shapes', 'Generated.FnsLJ', 'Generated.FnsOps'], 'src/shape/lj_shape.rs')
    ljs = read(repo, 'src/shape/lj_shape.rs')
    lj_pot = impl_block(ljs, r'impl\s+Potential\s+for\s+LJShape2\s*\{')
    lj_shape = impl_block(ljs, r'impl\s+Shape\s+for\s+LJShape2\s*\{')
    ljm = {('LJShape', 'iter'): (ident, L_LJ), ('LJShape', 'into_iter'): (ident, L_LJ), ('LJ2', 'energy'): ('lj2_energy', 'f')}
    ljenv = {'self': ('self', ('st', 'LJShape')), 'other': ('other', ('st', 'LJShape'))}
    g.add('ljshape_energy', '(self other : List (LJ2 α))', 'α', 'src/shape/lj_shape.rs', 'energy', lj_pot, ljenv, methods=ljm)
    g.add('ljshape_enclosing_radius', '(self : List (LJ2 α))', 'α', 'src/shape/lj_shape.rs', 'enclosing_radius', lj_shape, ljenv, methods=ljm)
    g.add('ljshape_transform', '(self : List (LJ2 α)) (transform : Mat3 α)', 'List (LJ2 α)', 'src/shape/lj_shape.rs', 'transform', lj_shape,
          dict(ljenv, transform=('transform', T_MAT)), methods={**ljm, ('LJ2', 'mul_right'): ('lj2_mul_right', ('st', 'LJ2'))})
    out[g.fname] = g.text('fnsLJShape')

    # ---------------- lj2 (C13, C03)
    g = Group('FnsLJ.lean', ['Model.Shapes'], 'src/shape/components/lj2.rs')
    lj = read(repo, 'src/shape/components/lj2.rs')
    p_impl = impl_block(lj, r'impl\s+Potential\s+for\s+LJ2\s*\{')
    g.add('lj2_energy', '(self other : LJ2 α)', 'α', 'src/shape/components/lj2.rs', 'energy', p_impl, env2('LJ2'))
    out[g.fname] = g.text('fnsLJ')

    # ---------------- constructors of the components and of the built-in shapes (C02, C12, C13, C10)
    g = Group('FnsCtor.lean', ['Model.Shapes'], 'src/shape/**/*.rs (constructors)')
    a_new = impl_block(atom, r'impl\s+Atom2\s*\{')
    g.add('atom2_new', '(x y radius : α)', 'Atom2 α', 'src/shape/components/atom2.rs', 'new', a_new,
          {'x': ('x', 'f'), 'y': ('y', 'f'), 'radius': ('radius', 'f')}, selfty='Atom2')
    g.add('line2_new', '(start end_ : α × α)', 'Line2 α', 'src/shape/components/line2.rs', 'new', l_impl,
          {'start': ('start', ('tup', ['f', 'f'])), 'end': ('end_', ('tup', ['f', 'f']))}, selfty='Line2')
    lj_def = impl_block(lj, r'impl\s+Default\s+for\s+LJ2\s*\{')
    lj_new = impl_block(lj, r'impl\s+LJ2\s*\{')
    g.add('lj2_default', '', 'LJ2 α', 'src/shape/components/lj2.rs', 'default', lj_def, {}, selfty='LJ2')
    ljdm = {('LJ2', 'default'): ('(lj2_default : LJ2 α)', ('st', 'LJ2'))}
    g.add('lj2_new', '(x y sigma : α)', 'LJ2 α', 'src/shape/components/lj2.rs', 'new', lj_new,
          {'x': ('x', 'f'), 'y': ('y', 'f'), 'sigma': ('sigma', 'f')}, selfty='LJ2', methods=ljdm)
    tri_env = {'radius': ('radius', 'f'), 'angle': ('angle', 'f'), 'distance': ('distance', 'f')}
    g.add('mol_from_trimer', '(radius angle distance : α)', 'List (Atom2 α)', 'src/shape/molecular_shape2.rs', 'from_trimer', m_impl, tri_env,
          selfty='MolShape', methods={('', 'Atom2::new'): ('atom2_new', ('st', 'Atom2'))})
    g.add('mol_circle', '', 'List (Atom2 α)', 'src/shape/molecular_shape2.rs', 'circle', m_impl, {},
          selfty='MolShape', methods={('', 'Atom2::new'): ('atom2_new', ('st', 'Atom2'))})
    ljs_impl = impl_block(ljs, r'impl\s+LJShape2\s*\{')
    g.add('lj_from_trimer', '(radius angle distance : α)', 'List (LJ2 α)', 'src/shape/lj_shape.rs', 'from_trimer', ljs_impl, tri_env,
          selfty='LJShape', methods={**ljdm, ('', 'LJ2::new'): ('lj2_new', ('st', 'LJ2'))})
    g.add('lj_circle', '', 'List (LJ2 α)', 'src/shape/lj_shape.rs', 'circle', ljs_impl, {},
          selfty='LJShape', methods={**ljdm, ('', 'LJ2::new'): ('lj2_new', ('st', 'LJ2'))})
    ls_impl = impl_block(ls, r'impl\s+LineShape\s*\{')
    g.add('line_from_radial', '(points : List α)', 'Except Unit (List (Line2 α))', 'src/shape/line_shape.rs', 'from_radial', ls_impl,
          {'points': ('points', ('list', 'f')), 'name': ('()', 'string')}, selfty='LineShape',
          methods={('', 'Line2::new'): ('line2_new', ('st', 'Line2'))},
          impx={'"The number of points provided is too few to create a 2D shape."': ('()', 0)})
    g.add('line_polygon', '(sides : Nat)', 'Except Unit (List (Line2 α))', 'src/shape/line_shape.rs', 'polygon', ls_impl,
          {'sides': ('sides', 'n')}, selfty='LineShape',
          methods={('', 'LineShape::from_radial'): (lambda r, a: '(line_from_radial %s)' % a[1], ('st', 'LineShape'))})
    out[g.fname] = g.text('fnsCtor')

    # ---------------- cell (C14, C02)
    g = Group('FnsCell.lean', ['Model.Cell'], 'src/cell.rs')
    cell = read(repo, 'src/cell.rs')
    c_impl = impl_block(cell, r'impl\s+Cell2\s*\{')
    cm = {('Cell', 'a'): ('cell_a', 'f'), ('Cell', 'b'): ('cell_b', 'f'), ('Cell', 'angle'): ('cell_angle', 'f')}
    cenv = {'self': ('self', ('st', 'Cell'))}
    g.add('cell_a', '(self : Cell α)', 'α', 'src/cell.rs', 'a', c_impl, cenv)
    g.add('cell_b', '(self : Cell α)', 'α', 'src/cell.rs', 'b', c_impl, cenv)
    g.add('cell_angle', '(self : Cell α)', 'α', 'src/cell.rs', 'angle', c_impl, cenv)
    g.add('cell_area', '(self : Cell α)', 'α', 'src/cell.rs', 'area', c_impl, cenv, methods=cm)
    g.add('cell_to_cartesian', '(self : Cell α) (x y : α)', 'α × α', 'src/cell.rs', 'to_cartesian', c_impl,
          dict(cenv, x=('x', 'f'), y=('y', 'f')), methods=cm)
    out[g.fname] = g.text('fnsCell')

    g = Group('FnsWrap.lean', ['Model.Mat3'], 'src/transform.rs')
    tr = read(repo, 'src/transform.rs')
    t_impl = impl_block(tr, r'impl\s+Transform2\s*\{')
    # `periodic`: the wrap of the position; `self.position()` / `self.set_position(p)` are the model's
    g.add('transform_periodic_position', '(position : α × α) (period offset : α)', 'α × α', 'src/transform.rs', 'periodic', t_impl,
          {'period': ('period', 'f'), 'offset': ('offset', 'f'), 'self': ('self', ('st', 'Transform2'))},
          methods={('Transform2', 'position'): (lambda r, a: 'position', ('pt',)), ('Transform2', 'set_position'): (lambda r, a: a[0], ('pt',))})
    out[g.fname] = g.text('fnsWrap')

    # ---------------- the symmetry-operation parser (C17, C16)
    g = Group('FnsParse.lean', ['Model.Parser'], 'src/transform.rs (from_operations)')
    g.add('from_operations', '(sym_ops : List Char)', 'Except ParseErr (Mat3 α)', 'src/transform.rs', 'from_operations', t_impl,
          {'sym_ops': ('sym_ops', ('str',))},
          impx={'"Not enough dimensions in input"': ('ParseErr.tooFew', 0),
                '"Too many dimensions in input"': ('ParseErr.tooMany', 0),
                '"Found invalid value: \'{}\'"': ('ParseErr.invalid', 1)})
    out[g.fname] = g.text('fnsParse')

    # ---------------- lattice images and symmetry copies (C14, C15, C04)
    MKPT = '/-- a pair as the model\'s point structure -/\ndef mkPt (p : α × α) : Pt α := ⟨p.1, p.2⟩\n'
    g = Group('FnsLattice.lean', ['Model.Cell', 'Generated.FnsCell'], 'src/cell.rs (images)')
    g.defs.append(MKPT)
    cm2 = dict(cm)
    cm2[('Cell', 'to_cartesian')] = ('cell_to_cartesian', ('tup', ['f', 'f']))
    cm2[('Cell', 'area')] = ('cell_area', 'f')
    g.add('cell_to_cartesian_point', '(self : Cell α) (point : Pt α)', 'α × α', 'src/cell.rs', 'to_cartesian_point', c_impl,
          dict(cenv, point=('point', T_P)), methods=cm2)
    cm2[('Cell', 'to_cartesian_point')] = ('cell_to_cartesian_point', ('pt',), [T_P])
    tenv = dict(cenv, transform=('transform', T_MAT))
    g.add('cell_to_cartesian_isometry', '(self : Cell α) (transform : Mat3 α)', 'Mat3 α', 'src/cell.rs', 'to_cartesian_isometry', c_impl,
          tenv, methods=cm2)
    g.add('cell_to_cartesian_translate', '(self : Cell α) (transform : Mat3 α) (x y : Int)', 'Mat3 α', 'src/cell.rs',
          'to_cartesian_translate', c_impl, dict(tenv, x=('x', 'i'), y=('y', 'i')), methods=cm2)
    cm2[('Cell', 'to_cartesian_translate')] = ('cell_to_cartesian_translate', T_MAT)
    cm2[('Cell', 'to_cartesian_isometry')] = ('cell_to_cartesian_isometry', T_MAT)
    g.add('cell_periodic_images', '(self : Cell α) (transform : Mat3 α) (shells : Int) (zero : Bool)', 'List (Mat3 α)', 'src/cell.rs',
          'periodic_images', c_impl, dict(tenv, shells=('shells', 'i'), zero=('zero', 'b')), methods=cm2)
    cm2[('Cell', 'periodic_images')] = ('cell_periodic_images', L_MAT, [T_MAT, 'i', 'b'])
    out[g.fname] = g.text('fnsLattice')

    g = Group('FnsSite.lean', ['Model.Site'], 'src/site.rs')
    site = read(repo, 'src/site.rs')
    s_impl = impl_block(site, r'impl\s+OccupiedSite\s*\{')
    senv = {'self': ('self', ('st', 'Site'))}
    sm = {}
    g.add('site_transform', '(self : Site α)', 'Mat3 α', 'src/site.rs', 'transform', s_impl, senv)
    sm[('Site', 'transform')] = ('site_transform', T_MAT)
    g.add('site_symmetries', '(self : Site α)', 'List (Mat3 α)', 'src/site.rs', 'symmetries', s_impl, senv)
    sm[('Site', 'symmetries')] = ('site_symmetries', L_MAT)
    g.add('site_positions', '(self : Site α)', 'List (Mat3 α)', 'src/site.rs', 'positions', s_impl, senv, methods=sm)
    g.add('site_multiplicity', '(self : Site α)', 'Nat', 'src/site.rs', 'multiplicity', s_impl, senv, methods=sm)
    sm[('Site', 'positions')] = ('site_positions', L_MAT)
    sm[('Site', 'multiplicity')] = ('site_multiplicity', 'n')
    out[g.fname] = g.text('fnsSite')

    # ---------------- static dispatch of the generic `S: Shape` methods onto the three shape types
    DISPATCH = '''/-- `S::intersects` for the shape type the state holds (static dispatch in the crate) -/
def shape_intersects (s o : Shape α) : Bool :=
  match s, o with
  | .line a, .line b => lineshape_intersects a b
  | .mol a, .mol b => molshape_intersects a b
  | _, _ => false

/-- `S::area` -/
def shape_area (s : Shape α) : α :=
  match s with
  | .line a => lineshape_area a
  | .mol a => molshape_area a
  | .lj _ => ((0 : Nat) : α)

/-- `S::enclosing_radius` -/
def shape_enclosing_radius (s : Shape α) : α :=
  match s with
  | .line a => lineshape_enclosing_radius a
  | .mol a => molshape_enclosing_radius a
  | .lj a => ljshape_enclosing_radius a

/-- `S::transform` -/
def shape_transform (s : Shape α) (t : Mat3 α) : Shape α :=
  match s with
  | .line a => .line (lineshape_transform a t)
  | .mol a => .mol (molshape_transform a t)
  | .lj a => .lj (ljshape_transform a t)

/-- `S::energy` -/
def shape_energy (s o : Shape α) : α :=
  match s, o with
  | .lj a, .lj b => ljshape_energy a b
  | _, _ => ((0 : Nat) : α)
'''
    g = Group('FnsShapeDispatch.lean', ['Model.Shapes', 'Generated.FnsLineShape', 'Generated.FnsMolShape', 'Generated.FnsLJShape'],
              'the impls of Shape / Intersect / Potential for LineShape, MolecularShape2, LJShape2 (dispatch only)')
    g.defs.append(DISPATCH)
    out[g.fname] = g.text('fnsShapeDispatch')

    # ---------------- states: overlap check and the two scores (C01, C02, C03)
    shape_m = {('Shape', 'transform'): ('shape_transform', ('st', 'Shape')), ('Shape', 'intersects'): ('shape_intersects', 'b'),
               ('Shape', 'energy'): ('shape_energy', 'f'), ('Shape', 'enclosing_radius'): ('shape_enclosing_radius', 'f'),
               ('Shape', 'area'): ('shape_area', 'f')}
    stenv = {'self': ('self', ('st', 'State'))}

    def state_group(fname, tag, rel, ty, extra):
        g = Group(fname, ['Model.State', 'Generated.FnsLattice', 'Generated.FnsSite', 'Generated.FnsShapeDispatch'], rel)
        src = read(repo, rel)
        inherent = impl_block(src, r'impl<S>\s+' + ty + r'<S>\s*where[^{]*\{')
        st_impl = impl_block(src, r'impl<S>\s+State\s+for\s+' + ty + r'<S>\s*where[^{]*\{')
        m = dict(shape_m)
        m.update(cm2)
        m.update(sm)
        pre = tag + '_'
        g.add(pre + 'total_shapes', '(self : Crystal α)', 'Nat', rel, 'total_shapes', st_impl, stenv, methods=m)
        m[('State', 'total_shapes')] = (pre + 'total_shapes', 'n')
        g.add(pre + 'relative_positions', '(self : Crystal α)', 'List (Mat3 α)', rel, 'relative_positions', inherent, stenv, methods=m)
        m[('State', 'relative_positions')] = (pre + 'relative_positions', L_MAT)
        g.add(pre + 'cartesian_positions', '(self : Crystal α)', 'List (Mat3 α)', rel, 'cartesian_positions', inherent, stenv, methods=m)
        m[('State', 'cartesian_positions')] = (pre + 'cartesian_positions', L_MAT)
        extra(g, m, inherent, st_impl, pre)
        # the ordering of states (the CLI's reduction `cmp::max` uses it)
        m[('State', 'score')] = (pre + 'score', ('opt', 'f'))
        env2s = dict(stenv, other=('other', ('st', 'State')))
        eq_impl = impl_block(src, r'impl<S>\s+PartialEq\s+for\s+' + ty + r'<S>\s*where[^{]*\{')
        po_impl = impl_block(src, r'impl<S>\s+PartialOrd\s+for\s+' + ty + r'<S>\s*where[^{]*\{')
        o_impl2 = impl_block(src, r'impl<S>\s+Ord\s+for\s+' + ty + r'<S>\s*where[^{]*\{')
        g.add(pre + 'eq', '(self other : Crystal α)', 'Bool', rel, 'eq', eq_impl, env2s, methods=m)
        g.add(pre + 'partial_cmp', '(self other : Crystal α)', 'Option Ordering', rel, 'partial_cmp', po_impl, env2s, methods=m)
        m[('State', 'partial_cmp')] = (pre + 'partial_cmp', ('opt', 'ord'))
        g.add(pre + 'cmp', '(self other : Crystal α)', 'Option Ordering', rel, 'cmp', o_impl2, env2s, methods=m, unwrap_tail=True)
        return g

    def packed_extra(g, m, inherent, st_impl, pre):
        g.add(pre + 'check_intersection', '(self : Crystal α)', 'Bool', 'src/state/packed.rs', 'check_intersection', inherent, stenv, methods=m)
        m[('State', 'check_intersection')] = (pre + 'check_intersection', 'b')
        g.add(pre + 'score', '(self : Crystal α)', 'Option α', 'src/state/packed.rs', 'score', st_impl, stenv, methods=m)
    g = state_group('FnsPacked.lean', 'packed', 'src/state/packed.rs', 'PackedState', packed_extra)
    out[g.fname] = g.text('fnsPacked')

    def pot_extra(g, m, inherent, st_impl, pre):
        g.add(pre + 'score', '(self : Crystal α)', 'Option α', 'src/state/potential.rs', 'score', st_impl, stenv, methods=m)
    g = state_group('FnsPotential.lean', 'potential', 'src/state/potential.rs', 'PotentialState', pot_extra)
    out[g.fname] = g.text('fnsPotential')

    # ---------------- optimiser (C05, C07, C18, C20) and basis (C06, C19, C08)
    g = Group('FnsAccept.lean', ['Model.Optimiser'], 'src/optimisation.rs (MCOptimiser)')
    opt = read(repo, 'src/optimisation.rs')
    o_impl = impl_block(opt, r'impl\s+MCOptimiser\s*\{')
    b_impl = impl_block(opt, r'impl\s+BuildOptimiser\s*\{')
    fenv = {'new': ('new', 'f'), 'old': ('old', 'f'), 'kt': ('kt', 'f'), 'self': ('self', ('st', 'MCOptimiser'))}
    g.add('energy_surface', '(new old kt : α)', 'α', 'src/optimisation.rs', 'energy_surface', o_impl, fenv)
    g.add('test_acceptance', '(threshold new old kt : α)', 'Bool', 'src/optimisation.rs', 'test_acceptance', o_impl,
          dict(fenv, threshold=('threshold', 'f')), methods={('MCOptimiser', 'energy_surface'): (lambda r, a: '(energy_surface %s)' % ' '.join(a), 'f')})

    def cut_rng(body):
        # the threshold draw `let threshold: f64 = rng.gen();` becomes the parameter `threshold`
        b2, n = re.subn(r'let\s+threshold\s*:\s*f64\s*=\s*rng\.gen\(\)\s*;', '', body)
        if n != 1:
            raise Untranslatable('accept_score does not draw `let threshold: f64 = rng.gen();` exactly once')
        return b2
    g.add('accept_score', '(new : Option α) (old kt threshold : α)', 'Option α', 'src/optimisation.rs', 'accept_score', o_impl,
          {'new': ('new', ('opt', 'f')), 'old': ('old', 'f'), 'kt': ('kt', 'f'), 'threshold': ('threshold', 'f'),
           'self': ('self', ('st', 'MCOptimiser'))},
          methods={('MCOptimiser', 'test_acceptance'): (lambda r, a: '(test_acceptance %s)' % ' '.join(a), 'b')}, cut=cut_rng)

    def cut_build(which):
        def f(body):
            # the prefix of `build` up to and including the `let <which> = …;` binding, returning it
            m = re.search(r'let\s+' + which + r'\s*=', body)
            if not m:
                raise Untranslatable('build: `let %s = …` not found' % which)
            toks_end = None
            depth = 0
            k = m.end()
            while k < len(body):
                c = body[k]
                if c in '({[':
                    depth += 1
                elif c in ')}]':
                    depth -= 1
                elif c == ';' and depth == 0:
                    toks_end = k
                    break
                k += 1
            if toks_end is None:
                raise Untranslatable('build: unterminated let')
            return body[:toks_end + 1] + '\n' + which
        return f
    out[g.fname] = g.text('fnsAccept')

    g = Group('FnsBuild.lean', ['Model.Optimiser'], 'src/optimisation.rs (BuildOptimiser::build)')
    benv = {'self': ('self', ('st', 'Builder'))}
    g.add('build_inner_steps', '(self : Builder α)', 'Nat', 'src/optimisation.rs', 'build', b_impl, benv, cut=cut_build('inner_steps'))
    g.add('build_loops', '(self : Builder α)', 'Nat', 'src/optimisation.rs', 'build', b_impl, benv, cut=cut_build('loops'))
    g.add('build_kt_ratio', '(self : Builder α)', 'α', 'src/optimisation.rs', 'build', b_impl, benv, cut=cut_build('kt_ratio'))
    out[g.fname] = g.text('fnsBuild')

    # the part of the outer loop of `optimise_state` after the inner loop: cooling, convergence
    # counter with early return, step-size adaptation (C18, C19, C20)
    g = Group('FnsLoopTail.lean', ['Model.Optimiser'], 'src/optimisation.rs (optimise_state, after the inner loop)')

    def cut_tail(body):
        m = re.search(r'for\s+loop_counter\s+in\s+1\s*\.\.=\s*\(\s*self\.steps\s*/\s*self\.inner_steps\s*\)\s*\{', body)
        if not m:
            raise Untranslatable('outer loop `for loop_counter in 1..=(self.steps / self.inner_steps)` not found')
        end = match_brace(body, m.end() - 1)
        outer = body[m.end():end]
        mi = re.search(r'for\s+_\s+in\s+0\s*\.\.\s*self\.inner_steps\s*\{', outer)
        if not mi:
            raise Untranslatable('inner loop `for _ in 0..self.inner_steps` not found')
        iend = match_brace(outer, mi.end() - 1)
        pre = re.sub(r'\s+', '', outer[:mi.start()])
        if pre != 'letscore_start=score_current;letmutloop_rejections:u64=0;':
            raise Untranslatable('statements before the inner loop are not `let score_start = score_current; let mut loop_rejections: u64 = 0;`')
        return outer[iend + 1:]
    tenv = {'self': ('self', ('st', 'Cfg')), 'rejections': ('rejections', 'n'), 'kt': ('kt', 'f'),
            'convergence_count': ('convergence_count', 'n'), 'step_ratio': ('step_ratio', 'f'),
            'score_current': ('score_current', 'f'), 'score_start': ('score_start', 'f'),
            'loop_rejections': ('loop_rejections', 'n'), 'loop_counter': ('loop_counter', 'n'), 'state': ('()', 'unit')}
    g.add('loop_tail',
          '(self : Cfg α) (rejections : Nat) (kt : α) (convergence_count : Nat) (step_ratio score_current score_start : α) (loop_rejections loop_counter : Nat)',
          'Bool × (Nat × α × Nat × α)', 'src/optimisation.rs', 'optimise_state', o_impl, tenv, cut=cut_tail,
          imp_vars=['rejections', 'kt', 'convergence_count', 'step_ratio'])
    out[g.fname] = g.text('fnsLoopTail')

    # one iteration of the inner loop of `optimise_state`: the proposal through the chosen handle, the
    # acceptance test, the undo of a rejected move (C05, C06, C19).  The three random draws become the
    # parameters `basis_index`, `draw`, `threshold`.
    g = Group('FnsInnerStep.lean', ['Model.Optimiser', 'Generated.FnsAccept'], 'src/optimisation.rs (optimise_state, the inner loop)')
    g.defs.append('/-- stand-in for a handle that does not exist (excluded by the hypothesis of the tie theorem) -/\n'
                  'def dummyHandle : Handle α := ⟨0, ((0 : Nat) : α), ((0 : Nat) : α), ((0 : Nat) : α)⟩\n')

    def cut_inner(body):
        mi = re.search(r'for\s+_\s+in\s+0\s*\.\.\s*self\.inner_steps\s*\{', body)
        if not mi:
            raise Untranslatable('inner loop `for _ in 0..self.inner_steps` not found')
        inner = body[mi.end():match_brace(body, mi.end() - 1)]
        inner, n1 = re.subn(r'let\s+basis_index\s*:\s*usize\s*=\s*basis_distribution\.sample\(&mut\s+rng\)\s*;', '', inner)
        if n1 != 1:
            raise Untranslatable('the inner loop does not draw `let basis_index: usize = basis_distribution.sample(&mut rng);` exactly once')
        if len(re.findall(r'&mut\s+rng', inner)) != 2:
            raise Untranslatable('the inner loop does not pass the generator to exactly set_sampled and accept_score')
        return inner
    ienv = {'self': ('self', ('st', 'Cfg')), 'hs': ('hs', 'hsvec'), 'heap': ('heap', 'heapvec'), 'score_current': ('score_current', 'f'),
            'loop_rejections': ('loop_rejections', 'n'), 'kt': ('kt', 'f'), 'step_ratio': ('step_ratio', 'f'),
            'basis_index': ('basis_index', 'n'), 'rng': ('()', 'unit'), 'state': ('state', ('st', 'StateObj'))}
    im = {('Cfg', 'accept_score'): (lambda r, a: '(accept_score %s %s %s threshold)' % (a[0], a[1], a[2]), ('opt', 'f')),
          ('StateObj', 'score'): (lambda r, a: '(score heap)', ('opt', 'f'))}
    g.add('inner_step',
          '(self : Cfg α) (hs : Array (Handle α)) (heap : Array α) (score : Array α → Option α) (score_current kt step_ratio : α) '
          '(loop_rejections basis_index : Nat) (draw threshold : α)',
          'Bool × (Array (Handle α) × Array α × α × Nat)', 'src/optimisation.rs', 'optimise_state', o_impl, ienv, cut=cut_inner,
          methods=im, imp_vars=['hs', 'heap', 'score_current', 'loop_rejections'])
    out[g.fname] = g.text('fnsInnerStep')

    g = Group('FnsBasis.lean', ['Model.Basis'], 'src/basis.rs')
    basis = read(repo, 'src/basis.rs')
    sb = impl_block(basis, r"impl<'a>\s*StandardBasis<'a>\s*\{")
    bb = impl_block(basis, r"impl<'a>\s*Basis\s+for\s+StandardBasis<'a>\s*\{")
    henv = {'self': ('self', ('st', 'Handle'))}
    g.add('basis_value_range', '(self : Handle α)', 'α', 'src/basis.rs', 'value_range', sb, henv)

    def cut_set_value(body):
        # the value written: the argument of `self.value.set_value( … )`
        m = re.search(r'self\.value\.set_value\(', body)
        if not m:
            raise Untranslatable('set_value: `self.value.set_value(…)` not found')
        j = match_brace(body, m.end() - 1)
        pre = body[:m.start()]
        m0 = re.match(r'\s*self\.old\s*=\s*self\.get_value\(\)\s*;', pre)
        if not m0:
            raise Untranslatable('set_value: does not start with `self.old = self.get_value();`')
        # local bindings between remembering the old value and the write belong to the written value
        lets = pre[m0.end():]
        if re.search(r'self\.old\s*=|set_value|reset_value', lets):
            raise Untranslatable('set_value: other effects before the write')
        if re.sub(r'\s+', '', body[j + 1:]) not in ('', ';'):
            raise Untranslatable('set_value: statements after the write')
        return lets + body[m.end():j]
    g.add('basis_clamped', '(self : Handle α) (new_value : α)', 'α', 'src/basis.rs', 'set_value', bb,
          dict(henv, new_value=('new_value', 'f')), cut=cut_set_value)

    def cut_sample(body):
        b2, n = re.subn(r'rng\.gen_range\(\s*-0\.5\s*,\s*0\.5\s*\)', 'draw', body)
        if n != 1:
            raise Untranslatable('sample does not draw `rng.gen_range(-0.5, 0.5)` exactly once')
        return b2
    g.add('basis_sample', '(self : Handle α) (current step_size draw : α)', 'α', 'src/basis.rs', 'sample', bb,
          dict(henv, step_size=('step_size', 'f'), draw=('draw', 'f')),
          methods={('Handle', 'get_value'): (lambda r, a: 'current', 'f'), ('Handle', 'value_range'): ('basis_value_range', 'f')},
          cut=cut_sample)
    out[g.fname] = g.text('fnsBasis')
    return out


def main():
    repo, outdir = sys.argv[1], sys.argv[2]
    os.makedirs(outdir, exist_ok=True)
    changed = []
    try:
        files = gen_fns(repo)
    except Exception as e:
        files = {}
        for n in ('FnsParse.lean', 'FnsCtor.lean', 'FnsOps.lean', 'FnsShapeDispatch.lean', 'FnsLattice.lean', 'FnsSite.lean', 'FnsPacked.lean', 'FnsPotential.lean', 'FnsLineShape.lean', 'FnsMolShape.lean', 'FnsLJShape.lean', 'FnsDisc.lean', 'FnsLine.lean', 'FnsLJ.lean', 'FnsCell.lean', 'FnsWrap.lean', 'FnsAccept.lean', 'FnsBuild.lean', 'FnsLoopTail.lean', 'FnsInnerStep.lean', 'FnsBasis.lean'):
            files[n] = '/- GENERATED: rs2lean failed: %s -/\nnamespace PV.Gen\nend PV.Gen\n' % str(e).replace('-/', '- /')
    for name, text in files.items():
        path = os.path.join(outdir, name)
        old = open(path, encoding='utf-8').read() if os.path.exists(path) else None
        if old != text:
            open(path, 'w', encoding='utf-8').write(text)
            changed.append(name)
    print('rs2lean: regenerated', ', '.join(changed) if changed else '(nothing changed)')


if __name__ == '__main__':
    main()
