"""runner — the machinery behind ./check (see its doc-string and DESIGN.md §2.5, §7)."""
import fcntl
import hashlib
import json
import os
import re
import subprocess
import sys
import time

import props

VERIF = os.path.dirname(os.path.dirname(os.path.abspath(__file__)))
REPO = os.environ.get('VERIF_REPO', '/repo')
LEAN = os.path.join(VERIF, 'lean')
HARNESS = os.path.join(VERIF, 'harness', 'pvh')
TARGET = os.path.join(VERIF, 'harness', 'target')
PVH = os.path.join(TARGET, 'release', 'pvh')
DRIVER = os.path.join(LEAN, '.lake', 'build', 'bin', 'driver')
WORK = os.path.join(VERIF, 'work')
ALLOWED_AXIOMS = {'propext', 'Classical.choice', 'Quot.sound'}
ENV = dict(os.environ, CARGO_NET_OFFLINE='true', LEAN_NUM_THREADS='16')


def sh(cmd, cwd=None, timeout=None, stdin=None, stdout=None):
    """Run a command, return (rc, combined output)."""
    try:
        p = subprocess.run(cmd, cwd=cwd, env=ENV, stdin=stdin,
                           stdout=stdout if stdout is not None else subprocess.PIPE,
                           stderr=subprocess.STDOUT if stdout is None else subprocess.PIPE,
                           timeout=timeout)
        out = p.stdout if stdout is None else p.stderr
        return p.returncode, (out or b'').decode('utf-8', 'replace')
    except subprocess.TimeoutExpired as e:
        return 124, 'timeout after %ss: %s' % (timeout, ' '.join(cmd))


class BuildLock:
    """One lock around regen/lake/cargo so that several checks may run concurrently."""

    def __enter__(self):
        os.makedirs(WORK, exist_ok=True)
        self.f = open(os.path.join(WORK, '.build.lock'), 'w')
        fcntl.flock(self.f, fcntl.LOCK_EX)
        return self

    def __exit__(self, *a):
        fcntl.flock(self.f, fcntl.LOCK_UN)
        self.f.close()


def repo_state():
    rc, head = sh(['git', '-C', REPO, 'rev-parse', 'HEAD'])
    rc2, dirty = sh(['git', '-C', REPO, 'status', '--porcelain', '--', 'src', 'Cargo.toml'])
    return head.strip(), [l for l in dirty.splitlines() if l.strip()]


# --------------------------------------------------------------------------- proof obligations

THEOREM_RE = re.compile(r'^\s*(?:@\[[^\]]*\]\s*)?(?:private\s+|protected\s+)?theorem\s+([A-Za-z_][\w\.\']*)', re.M)
NAMESPACE_RE = re.compile(r'^namespace\s+([\w\.]+)', re.M)


def module_file(mod):
    return os.path.join(LEAN, *mod.split('.')) + '.lean'


def theorems_of(mod):
    """[(full name, line)] of the theorems stated in a module (single top-level namespace)."""
    path = module_file(mod)
    if not os.path.exists(path):
        return []
    src = open(path, encoding='utf-8').read()
    # comments out (keeping line numbers): doc-strings may contain the word `theorem`
    src = re.sub(r'/-.*?-/', lambda m: '\n' * m.group(0).count('\n'), src, flags=re.S)
    src = re.sub(r'--.*', '', src)
    ns = NAMESPACE_RE.search(src)
    prefix = (ns.group(1) + '.') if ns else ''
    out = []
    for m in THEOREM_RE.finditer(src):
        line = src.count('\n', 0, m.start()) + 1
        out.append((prefix + m.group(1), line))
    return out


def forbidden_tokens(mods):
    """sorry/admit/axiom/native_decide/… in the source of the modules (comments stripped)."""
    hits = []
    pat = re.compile(r'\b(sorry|admit|native_decide|bv_decide|implemented_by|unsafe)\b|^\s*axiom\s|maxHeartbeats\s+0\b', re.M)
    for mod in mods:
        path = module_file(mod)
        if not os.path.exists(path):
            continue
        src = open(path, encoding='utf-8').read()
        src = re.sub(r'/-.*?-/', lambda m: '\n' * m.group(0).count('\n'), src, flags=re.S)
        src = re.sub(r'--.*', '', src)
        src = re.sub(r'"(?:[^"\\\n]|\\.)*"', '""', src)   # string literals are data, not code
        for m in pat.finditer(src):
            hits.append('%s:%d: %s' % (mod, src.count('\n', 0, m.start()) + 1, m.group(0).strip()))
    return hits


def lean_imports(mod, seen=None):
    """Transitive project-local imports of a module (Model/Spec/Lemmas/Proofs/Generated)."""
    seen = seen if seen is not None else []
    path = module_file(mod)
    if mod in seen or not os.path.exists(path):
        return seen
    seen.append(mod)
    for m in re.finditer(r'^import\s+([\w\.]+)', open(path, encoding='utf-8').read(), re.M):
        dep = m.group(1)
        if dep.split('.')[0] in ('Model', 'Spec', 'Lemmas', 'Proofs', 'Generated', 'Driver'):
            lean_imports(dep, seen)
    return seen


def regen():
    rc, out = sh([sys.executable, os.path.join(VERIF, 'tools', 'pvtx.py'), REPO,
                  os.path.join(LEAN, 'Generated')])
    # function bodies: Rust -> Lean definitions (Generated/Fns*.lean), tied by Proofs/Tie*.lean
    rc2, out2 = sh([sys.executable, os.path.join(VERIF, 'tools', 'rs2lean.py'), REPO,
                    os.path.join(LEAN, 'Generated')])
    return (rc or rc2), out + out2


def build_proofs(pid, mods, log, tier='quick'):
    """lake build the theorem modules; audit axioms.  Returns dict with obligations etc."""
    res = {'obligations': 0, 'discharged': 0, 'failed': [], 'lean_errors': '', 'theorems': [],
           'axioms': {}, 'forbidden': []}
    thms = []
    for mod in mods:
        thms += [(n, l, mod) for (n, l) in theorems_of(mod)]
    res['theorems'] = [n for (n, _, _) in thms]
    res['obligations'] = len(thms) * 2  # each theorem: elaborated by the kernel + axiom audit
    t = time.time()
    rc, out = sh(['lake', 'build'] + mods, cwd=LEAN, timeout=3600)
    log.write('--- lake build %s (rc=%d, %.1fs)\n%s\n' % (' '.join(mods), rc, time.time() - t, out))
    failed = set()
    if rc != 0:
        res['lean_errors'] = '\n'.join(l for l in out.splitlines() if 'error' in l.lower())[:4000]
        # map error lines to the enclosing theorem
        for m in re.finditer(r'error: ([\w/\.]+\.lean):(\d+):(\d+)', out):
            f, line = m.group(1), int(m.group(2))
            mod = f[:-5].replace('/', '.')
            cands = [(n, l) for (n, l, mo) in thms if mo == mod and l <= line]
            if cands:
                failed.add(max(cands, key=lambda x: x[1])[0])
            else:
                failed.add('%s (line %d)' % (mod, line))
        if not failed:
            failed.add('build of ' + ' '.join(mods))
    sorry = re.findall(r"warning: ([\w/\.]+\.lean):(\d+):\d+: declaration uses `sorry`", out)
    for f, line in sorry:
        failed.add('%s:%s uses sorry' % (f, line))
    allmods = []
    for m in mods:
        lean_imports(m, allmods)
    res['forbidden'] = forbidden_tokens([m for m in allmods if not m.startswith('Generated')])
    for h in res['forbidden']:
        failed.add('forbidden token ' + h)
    # axiom audit (only meaningful if the modules built)
    if rc == 0 and thms:
        audit = os.path.join(LEAN, 'Audit', pid + '.lean')
        with open(audit, 'w') as f:
            for mod in mods:
                f.write('import %s\n' % mod)
            for (n, _, _) in thms:
                f.write('#print axioms %s\n' % n)
        rc2, out2 = sh(['lake', 'env', 'lean', audit], cwd=LEAN, timeout=1800)
        log.write('--- axiom audit (rc=%d)\n%s\n' % (rc2, out2))
        if rc2 != 0:
            failed.add('axiom audit failed')
        cur = None
        for m in re.finditer(r"'([^\n]+?)' (depends on axioms: \[([^\]]*)\]|does not depend on any axioms)", out2, re.S):
            name = m.group(1)
            axs = [a.strip() for a in (m.group(3) or '').replace('\n', ' ').split(',') if a.strip()]
            res['axioms'][name] = axs
            bad = [a for a in axs if a not in ALLOWED_AXIOMS]
            if bad:
                failed.add('%s depends on %s' % (name, ','.join(bad)))
        for (n, _, _) in thms:
            if n not in res['axioms']:
                failed.add('no axiom report for ' + n)
    # thorough: independent re-check of the compiled modules with leanchecker
    if tier == 'thorough' and rc == 0:
        for mod in mods:
            res['obligations'] += 1
            t = time.time()
            rc3, out3 = sh(['lake', 'env', 'leanchecker', mod], cwd=LEAN, timeout=3600)
            log.write('--- leanchecker %s (rc=%d, %.1fs)\n%s\n' % (mod, rc3, time.time() - t, out3[-2000:]))
            if rc3 != 0:
                failed.add('leanchecker rejects ' + mod)
            res.setdefault('leanchecker', []).append({'module': mod, 'rc': rc3})
    res['failed'] = sorted(failed)
    if rc == 0 and not failed:
        res['discharged'] = res['obligations']
    else:
        bad_thms = set(x for x in failed if x in res['theorems'])
        res['discharged'] = max(0, res['obligations'] - 2 * len(bad_thms) - (len(failed) - len(bad_thms)))
        if rc != 0:
            res['discharged'] = min(res['discharged'], max(0, res['obligations'] - 1))
    return res


def build_driver(log):
    t = time.time()
    rc, out = sh(['lake', 'build', 'driver'], cwd=LEAN, timeout=3600)
    log.write('--- lake build driver (rc=%d, %.1fs)\n%s\n' % (rc, time.time() - t, out[-3000:]))
    return rc, out


def build_cli(log):
    """the real `packing` binary, from /repo's working tree, into a target dir under /verif"""
    t = time.time()
    rc, out = sh(['cargo', 'build', '--release', '--offline', '--quiet', '--bin', 'packing',
                  '--manifest-path', os.path.join(REPO, 'Cargo.toml'),
                  '--target-dir', os.path.join(VERIF, 'harness', 'target-repo')], timeout=3600)
    log.write('--- cargo build packing binary (rc=%d, %.1fs)\n%s\n' % (rc, time.time() - t, out[-4000:]))
    return rc, out


def build_harness(log):
    lock = os.path.join(HARNESS, 'Cargo.lock')
    src_lock = os.path.join(REPO, 'Cargo.lock')
    if not os.path.exists(lock) and os.path.exists(src_lock):
        import shutil
        shutil.copy(src_lock, lock)
    t = time.time()
    rc, out = sh(['cargo', 'build', '--release', '--offline', '--quiet'], cwd=HARNESS, timeout=3600)
    log.write('--- cargo build pvh (rc=%d, %.1fs)\n%s\n' % (rc, time.time() - t, out[-6000:]))
    return rc, out


# --------------------------------------------------------------------------- correspondence

def run_family(pid, fam, n, seed, wdir, log):
    """Generate n requests (corpus first), run impl + model, diff.  Returns a dict."""
    req = os.path.join(wdir, fam + '.req')
    impl = os.path.join(wdir, fam + '.impl')
    model = os.path.join(wdir, fam + '.model')
    r = {'family': fam, 'requests': 0, 'disagreements': [], 'error': None, 'nontrivial': 0,
         'distinct': 0, 'classes': {}, 'samples': []}
    rc, out = sh([PVH, 'gen', fam, str(seed), str(n), req], timeout=1800)
    if rc != 0:
        r['error'] = 'pvh gen failed: ' + out[-500:]
        return r
    corpus = os.path.join(VERIF, 'corpus', fam + '.req')
    if os.path.exists(corpus):
        lines = [l for l in open(corpus).read().splitlines() if l.strip() and not l.startswith('#')]
        body = open(req).read()
        with open(req, 'w') as f:
            f.write('\n'.join(lines) + ('\n' if lines else '') + body)
    t = time.time()
    rc, out = sh([PVH, 'exec', req, impl], timeout=3600)
    t_impl = time.time() - t
    if rc != 0:
        r['error'] = 'pvh exec failed (rc=%d): %s' % (rc, out[-500:])
        return r
    t = time.time()
    with open(req, 'rb') as fin, open(model, 'wb') as fout:
        # the model normally answers faster than the crate; a model that hangs (e.g. a degenerate cell built from
        # constants the translator could not read in a changed source) must not stall the check
        rc, err = sh([DRIVER], stdin=fin, stdout=fout, timeout=min(1800, max(120, 60 + 30 * t_impl)))
    t_model = time.time() - t
    if rc != 0:
        r['error'] = 'model driver failed (rc=%d): %s' % (rc, err[-500:])
        return r
    reqs = open(req).read().splitlines()
    impls = open(impl).read().splitlines()
    models = open(model).read().splitlines()
    if not (len(reqs) == len(impls) == len(models)):
        r['error'] = 'reply count mismatch: %d requests, %d impl, %d model' % (len(reqs), len(impls), len(models))
        return r
    seen = set()
    nontriv = props.NONTRIVIAL.get(fam, lambda q, a: True)
    classify = props.CLASSIFY.get(fam, lambda q, a: a.split(' ')[0] if a else '')
    for q, a, b in zip(reqs, impls, models):
        if q.startswith('#') or not q.strip():
            continue
        r['requests'] += 1
        c = classify(q, a)
        r['classes'][c] = r['classes'].get(c, 0) + 1
        if a != b and not props.tolerant_equal(fam, q, a, b):
            if len(r['disagreements']) < 20:
                r['disagreements'].append({'request': q, 'impl': a, 'model': b})
            else:
                r['disagreements'].append(None)
        if q not in seen:
            seen.add(q)
            if nontriv(q, a):
                r['nontrivial'] += 1
                if len(r['samples']) < 3:
                    r['samples'].append({'request': q[:300], 'reply': a[:300]})
    r['distinct'] = len(seen)
    r['n_disagreements'] = len(r['disagreements'])
    r['disagreements'] = [d for d in r['disagreements'] if d]
    log.write('--- family %s: %d requests, %d distinct, %d non-trivial, %d disagreements (impl %.1fs, model %.1fs)\n'
              % (fam, r['requests'], r['distinct'], r['nontrivial'], r['n_disagreements'], t_impl, t_model))
    return r


# --------------------------------------------------------------------------- search

def run_search(pid, seed, budget, wdir, log):
    """pvh search <pid>: one JSON object per line: {kind, predicate, what, request, detail}."""
    out = os.path.join(wdir, 'search.jsonl')
    if os.path.exists(out):
        os.remove(out)
    t = time.time()
    rc, txt = sh([PVH, 'search', pid, str(seed), str(budget), out], timeout=budget * 4 + 600)
    log.write('--- search %s (rc=%d, %.1fs)\n%s\n' % (pid, rc, time.time() - t, txt[-3000:]))
    res = {'findings': [], 'stats': {}, 'error': None}
    if rc != 0:
        res['error'] = 'pvh search failed (rc=%d): %s' % (rc, txt[-800:])
        return res
    if os.path.exists(out):
        for line in open(out):
            line = line.strip()
            if not line:
                continue
            try:
                o = json.loads(line)
            except Exception:
                continue
            if o.get('kind') == 'stats':
                res['stats'] = o
            else:
                res['findings'].append(o)
    return res


def load_known():
    p = os.path.join(VERIF, 'known_findings.json')
    if not os.path.exists(p):
        return []
    return json.load(open(p))


# --------------------------------------------------------------------------- one property

def write_json(path, obj):
    os.makedirs(os.path.dirname(path), exist_ok=True)
    tmp = path + '.tmp'
    with open(tmp, 'w') as f:
        json.dump(obj, f, indent=1, sort_keys=False)
        f.write('\n')
    os.replace(tmp, path)


def check_property(pid, tier, seed):
    t0 = time.time()
    P = props.PROPS[pid]
    wdir = os.path.join(WORK, pid)
    os.makedirs(wdir, exist_ok=True)
    log = open(os.path.join(wdir, 'log.txt'), 'w')
    head, dirty = repo_state()
    mods = P['theorems']
    violations = []   # list of dict(kind, detail, replay-content)
    assumptions = list(P.get('assumptions', []))

    with BuildLock():
        rc, out = regen()
        log.write('--- regen: ' + out + '\n')
        proof = build_proofs(pid, mods, log, tier)
        drc, dout = build_driver(log)
        hrc, hout = build_harness(log)
        if hrc == 0 and P.get('needs_cli'):
            crc, cout = build_cli(log)
            if crc != 0:
                hrc, hout = crc, 'the packing binary does not build: ' + cout[-1500:]

    # imports → which generated files / model modules the theorems are about
    imported = []
    for m in mods:
        lean_imports(m, imported)

    fam_results = []
    tie_broken = None
    if drc != 0:
        tie_broken = 'model driver does not build: ' + dout[-1500:]
    elif hrc != 0:
        tie_broken = 'harness does not build against /repo: ' + hout[-1500:]
    else:
        for (fam, nq, nt) in P['families']:
            n = nq if tier == 'quick' else nt
            fr = run_family(pid, fam, n, seed, wdir, log)
            fam_results.append(fr)

    search = {'findings': [], 'stats': {}, 'error': None}
    if hrc == 0 and P.get('search'):
        budget = P['search'][0] if tier == 'quick' else P['search'][1]
        search = run_search(pid, seed, budget, wdir, log)

    # ---- verdict
    known = [k for k in load_known() if k.get('property') == pid]
    known_active = [k for k in known if k.get('status') == 'known']
    known_lines = []
    unlisted = []
    reproduced = set()
    for f in search['findings']:
        hit = None
        for k in known_active:
            if k.get('predicate') and k['predicate'] == f.get('predicate'):
                hit = k
                break
        if hit:
            if hit['id'] not in reproduced:
                reproduced.add(hit['id'])
                known_lines.append('KNOWN-FINDING: property=%s %s [%s]' % (pid, hit['what'], hit['id']))
        else:
            unlisted.append(f)

    os.makedirs(os.path.join(VERIF, 'replays'), exist_ok=True)
    n_rep = 0

    def new_replay(obj):
        nonlocal n_rep
        n_rep += 1
        rel = 'replays/%s-%d-%d.json' % (pid, seed, n_rep)
        obj.update({'property': pid, 'seed': seed, 'tier': tier, 'repo_head': head, 'dirty_files': dirty})
        write_json(os.path.join(VERIF, rel), obj)
        return rel

    lines = []
    found_input = False
    for f in unlisted[:5]:
        found_input = True
        rel = new_replay({'kind': 'failing-input', 'oracle': f.get('oracle'), 'what': f.get('what'),
                          'predicate': f.get('predicate'), 'request': f.get('request'), 'detail': f.get('detail')})
        lines.append('VIOLATION property=%s replay=%s' % (pid, rel))

    broken = []
    if proof['failed']:
        broken.append({'kind': 'broken-obligation', 'theorem': proof['failed'], 'lean_error': proof['lean_errors']})
    if tie_broken:
        broken.append({'kind': 'broken-correspondence', 'family': 'build', 'detail': tie_broken})
    for fr in fam_results:
        if fr['error']:
            broken.append({'kind': 'broken-correspondence', 'family': fr['family'], 'detail': fr['error']})
        elif fr['n_disagreements']:
            broken.append({'kind': 'broken-correspondence', 'family': fr['family'],
                           'n_disagreements': fr['n_disagreements'], 'first': fr['disagreements'][:5]})
    if search['error']:
        broken.append({'kind': 'broken-search', 'detail': search['error']})
    for b in broken:
        rel = new_replay(dict(b))
        if found_input:
            lines.append('VIOLATION property=%s replay=%s' % (pid, rel))
        else:
            lines.append('VIOLATION property=%s replay=%s no-failing-input-found' % (pid, rel))

    # ---- evidence
    n_req = sum(fr['requests'] for fr in fam_results)
    n_dis = sum(fr.get('n_disagreements', 0) for fr in fam_results)
    evaluations = n_req + int(search['stats'].get('evaluations', 0))
    nontriv = sum(fr['nontrivial'] for fr in fam_results) + int(search['stats'].get('nontrivial', 0))
    samples = []
    for th in proof['theorems'][:4]:
        samples.append({'obligation': th, 'axioms': proof['axioms'].get(th)})
    for fr in fam_results:
        samples += fr['samples'][:2]
    samples += search['stats'].get('samples', [])[:3]
    cov = {
        'obligations': proof['obligations'],
        'discharged': proof['discharged'],
        'checker_cmd': 'cd lean && lake build %s && lake env lean Audit/%s.lean  (Lean 4.33.0 kernel; #print axioms per theorem)' % (' '.join(mods), pid),
        'trusted_base': ['Lean 4.33.0 kernel', 'axioms: propext, Classical.choice, Quot.sound (audited per theorem on this run)',
                         'Mathlib v4.33.0 (imported module by module in proof files)',
                         'tools/pvtx.py (translator: source text -> Generated/*.lean)',
                         'tools/rs2lean.py (translator: function bodies -> Generated/Fns*.lean, tied to the model by the Proofs/Tie*.lean theorems listed here)',
                         'harness/pvh + lean driver (correspondence: same requests through the crate and the model)']
                        + P.get('trusted', []),
        'theorems': proof['theorems'],
        'failed_obligations': proof['failed'],
        'theorem_modules': mods,
        'leanchecker': proof.get('leanchecker', 'thorough tier only'),
        'model_modules': [m for m in imported if not m.startswith('Proofs')],
        'float_noise_agreements': props.NOISE['count'],
        'programs': max(n_req, 1),
        'disagreements_checked': n_dis,
        'evaluations': max(evaluations, 1),
        'distinct_nontrivial': nontriv,
        'rule': P.get('rule', ''),
        'samples': samples if samples else [{'note': 'no samples'}],
        'families': [{k: fr[k] for k in ('family', 'requests', 'distinct', 'nontrivial', 'classes')} | {'disagreements': fr.get('n_disagreements', 0)} for fr in fam_results],
        'search': search['stats'],
        'known_findings_reproduced': sorted(reproduced),
        'explanation': P.get('explanation', ''),
    }
    ev = {
        'property_id': pid, 'tier': tier, 'seed': seed, 'level': 'proof',
        'coverage': cov, 'assumptions': assumptions,
        'wall_s': round(time.time() - t0, 2), 'violations': len(lines),
        'repo_head': head, 'repo_dirty_files': dirty,
    }
    write_json(os.path.join(VERIF, 'evidence', pid + '.json'), ev)

    for l in known_lines:
        print(l)
    for l in lines:
        print(l)
    status = 'ok' if not lines else 'VIOLATED'
    print('%s %s tier=%s seed=%d: %d/%d obligations discharged, %d requests (%d disagreements), search: %d evaluations, %d unlisted findings, %.1fs'
          % (pid, status, tier, seed, proof['discharged'], proof['obligations'], n_req, n_dis,
             int(search['stats'].get('evaluations', 0)), len(unlisted), time.time() - t0))
    log.close()
    return 1 if lines else 0


# --------------------------------------------------------------------------- replay / setup

def do_replay(pid, path):
    obj = json.load(open(path))
    with BuildLock():
        log = open(os.path.join(WORK, 'replay.log'), 'w')
        regen()
        hrc, hout = build_harness(log)
        drc, dout = build_driver(log)
    if obj.get('kind') == 'broken-obligation':
        proof = build_proofs(pid, props.PROPS[pid]['theorems'], open(os.devnull, 'w'))
        print(json.dumps({'failed': proof['failed'], 'lean_errors': proof['lean_errors'][:2000]}, indent=1))
        return 1 if proof['failed'] else 0
    reqs = []
    if obj.get('request'):
        reqs = obj['request'] if isinstance(obj['request'], list) else [obj['request']]
    for d in obj.get('first', []) or []:
        reqs.append(d['request'])
    if not reqs:
        print('nothing to replay in', path)
        return 0
    os.makedirs(os.path.join(WORK, 'replay'), exist_ok=True)
    req = os.path.join(WORK, 'replay', 'r.req')
    open(req, 'w').write('\n'.join(reqs) + '\n')
    rc, out = sh([PVH, 'exec', req, req + '.impl'])
    with open(req, 'rb') as fin, open(req + '.model', 'wb') as fout:
        sh([DRIVER], stdin=fin, stdout=fout)
    bad = 0
    for q, a, b in zip(reqs, open(req + '.impl').read().splitlines(), open(req + '.model').read().splitlines()):
        print('request:', q)
        print('  impl :', a)
        print('  model:', b)
        if q.startswith('oracle'):
            if not a.startswith('ok holds'):
                bad += 1
        elif a != b:
            bad += 1
    print('replay: %d of %d still failing' % (bad, len(reqs)))
    return 1 if bad else 0


def do_setup():
    t0 = time.time()
    os.makedirs(WORK, exist_ok=True)
    log = open(os.path.join(WORK, 'setup.log'), 'w')
    with BuildLock():
        rc, out = regen()
        print(out.strip())
        rc1, o1 = build_harness(log)
        print('harness build rc=%d' % rc1)
        rc4, o4 = build_cli(log)
        print('packing binary build rc=%d' % rc4)
        rc2, o2 = build_driver(log)
        print('driver build rc=%d' % rc2)
        mods = sorted(set(m for p in props.PROPS.values() for m in p['theorems']))
        rc3, o3 = sh(['lake', 'build'] + mods, cwd=LEAN, timeout=7200)
        log.write(o3)
        print('proof build rc=%d (%d modules)' % (rc3, len(mods)))
        if rc3 != 0:
            print(o3[-3000:])
    print('setup done in %.0fs' % (time.time() - t0))
    return 0 if (rc1 == 0 and rc2 == 0) else 1


def main(argv):
    if not argv or argv[0] in ('-h', '--help'):
        print(__doc__)
        return 2
    if argv[0] == '--setup':
        return do_setup()
    pid = argv[0]
    if pid not in props.PROPS:
        print('unknown property', pid)
        return 2
    tier = os.environ.get('VERIF_TIER', 'quick')
    replay = None
    i = 1
    while i < len(argv):
        if argv[i] == '--tier':
            tier = argv[i + 1]
            i += 2
        elif argv[i] == '--replay':
            replay = argv[i + 1]
            i += 2
        else:
            i += 1
    if tier not in ('quick', 'thorough'):
        tier = 'quick'
    try:
        seed = int(os.environ.get('VERIF_SEED', '0'))
    except ValueError:
        seed = 0
    if replay:
        return do_replay(pid, replay)
    return check_property(pid, tier, seed)
