#!/usr/bin/env python3
"""check_harmless.py [patch-name …] — regression run of the harmless rewrites kept in seeded/harmless/*.diff.

For every patch: apply it to /repo, run the quick check of all 20 properties, revert /repo.  Every check must
exit 0 and print no VIOLATION line (a harmless rewrite must not raise an alarm).  /repo must be clean; the
evidence files are restored afterwards.  Prints one line per failing (patch, property) and a summary.
"""
import glob
import os
import subprocess
import sys

VERIF = os.path.dirname(os.path.dirname(os.path.abspath(__file__)))


def sh(cmd, cwd=None):
    p = subprocess.run(cmd, cwd=cwd, stdout=subprocess.PIPE, stderr=subprocess.STDOUT)
    return p.returncode, p.stdout.decode('utf-8', 'replace')


def main():
    rc, o = sh(['git', '-C', '/repo', 'status', '--porcelain', '--', 'src'])
    if o.strip():
        print('/repo is not clean')
        return 2
    want = sys.argv[1:]
    patches = sorted(glob.glob(os.path.join(VERIF, 'seeded', 'harmless', '*.diff')))
    if want:
        patches = [p for p in patches if os.path.basename(p)[:-5] in want]
    bad = 0
    for p in patches:
        name = os.path.basename(p)[:-5]
        rc, o = sh(['git', '-C', '/repo', 'apply', p])
        if rc != 0:
            print('%s: does not apply' % name)
            bad += 1
            continue
        try:
            for k in range(1, 21):
                pid = 'C%02d' % k
                rc, o = sh([os.path.join(VERIF, 'check'), pid, '--tier', 'quick'], cwd=VERIF)
                v = [l for l in o.splitlines() if l.startswith('VIOLATION')]
                if rc != 0 or v:
                    bad += 1
                    print('%s %s: exit %d %s' % (name, pid, rc, v[0] if v else ''), flush=True)
        finally:
            sh(['git', '-C', '/repo', 'checkout', '--', '.'])
        print('%s done' % name, flush=True)
    sh(['git', '-C', VERIF, 'checkout', '--', 'evidence'])
    print('%d harmless patches, %d alarms' % (len(patches), bad))
    return 1 if bad else 0


if __name__ == '__main__':
    sys.exit(main())
